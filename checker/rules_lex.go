package main

import (
	"fmt"
	"go/constant"
	"go/token"
	"sort"
	"strings"
	"unicode"

	"golang.org/x/tools/go/ssa"
)

// ---------------------------------------------------------------------------------------------
// LEX — lexical tables of the generic and expression tokenizers (C13)
// ---------------------------------------------------------------------------------------------

func init() {
	register(&Rule{ID: "LEX.tables", Floor: 30,
		Doc: "cross-table agreement of the expression lexer: every multi-character non-alphabetic operator lexeme is registered in the expression symbol state (so the longest symbol can win), every alphabetic operator lexeme is a keyword, every keyword is an operator lexeme or TRUE/FALSE, keywords are stored upper-case and matched against the upper-cased word",
		Run: ruleLexTables})
	register(&Rule{ID: "LEX.dispatch", Floor: 60,
		Doc: "character → state tables of the generic, expression and mustache tokenizers, obtained by folding the constructor's registration sequence with 'latest covering registration wins' (the map semantics MAP.* verifies) and probed at the boundary characters of every lexical class",
		Run: ruleLexDispatch})
	register(&Rule{ID: "LEX.charsets", Floor: 8,
		Doc: "terminal characters of the number, comment and quote grammars: the sets of character constants that each state tests as alternatives (sign, decimal point, exponent marker, exponent sign, comment openers) are those of the lexical grammar",
		Run: ruleLexCharsets})
	register(&Rule{ID: "LEX.classes", Floor: 12,
		Doc: "each state emits tokens of its own classes only (word→Word|Keyword, number→Integer|Float, quote→Quoted|Word for double-quoted identifiers, comment→Comment, whitespace→Whitespace, special→Special, symbol→the registered type)",
		Run: ruleLexClasses})
}

func (c *Ctx) stringTable(pkgRel, name string) []string {
	elts, info, _ := c.packageVarLiteral(pkgRel, name)
	var out []string
	for _, e := range elts {
		tv := info.Types[e]
		if tv.Value != nil && tv.Value.Kind() == constant.String {
			out = append(out, constant.StringVal(tv.Value))
		}
	}
	return out
}

func isAlpha(s string) bool {
	for _, r := range s {
		if !unicode.IsLetter(r) {
			return false
		}
	}
	return s != ""
}

func ruleLexTables(c *Ctx) []*Obligation {
	o := newObl("LEX.tables")
	ops := c.stringTable(pkgParsers, "operators")
	kws := c.stringTable("calculator/tokenizers", "Keywords")
	if len(ops) == 0 || len(kws) == 0 {
		panic(anchorError("operators / Keywords tables not found"))
	}
	// registered multi-character symbols of the expression symbol state
	ctor := c.MustFunc("calculator/tokenizers", "", "NewExpressionSymbolState")
	reg := map[string]bool{}
	for _, ci := range allCalls(ctor) {
		if f := calleeObj(ci.Common()); f != nil && f.Name() == "Add" {
			if s, ok := constString(callArgs(ci.Common())[0]); ok {
				reg[s] = true
			}
		}
	}
	kwSet := map[string]bool{}
	for _, k := range kws {
		kwSet[k] = true
	}
	opSet := map[string]bool{}
	for _, op := range ops {
		opSet[op] = true
	}
	for _, op := range ops {
		key := "lexer#operator#" + op
		switch {
		case isAlpha(op):
			o.check(kwSet[op], key, c.Pos(ctor.Pos()), "alphabetic operator is a keyword", "operator word "+op+" is not in the keyword table: it is tokenized as an identifier and never recognised as an operator")
		case len([]rune(op)) > 1:
			o.check(reg[op], key, c.Pos(ctor.Pos()), "multi-character symbol registered in the expression symbol state", "operator "+op+" is not registered as a multi-character symbol: it is tokenized as separate one-character symbols")
		default:
			o.triv(key, c.Pos(ctor.Pos()), "single character")
		}
	}
	for _, k := range kws {
		key := "lexer#keyword#" + k
		good := (opSet[k] || k == "TRUE" || k == "FALSE") && k == strings.ToUpper(k)
		o.check(good, key, c.Pos(ctor.Pos()), "keyword is an operator word or TRUE/FALSE, stored upper-case", "keyword "+k+" is not an operator word / boolean literal stored in upper case: the parser cannot classify it (UNKNOWN_SYMBOL) or the case-insensitive match fails")
	}
	for s := range reg {
		if !opSet[s] {
			o.bad("lexer#symbol#"+s, c.Pos(ctor.Pos()), "symbol "+s+" is registered as one token but is not an operator of the language: input containing it is rejected as an unknown symbol")
		}
	}
	// keyword match: keyword == strings.ToUpper(token.Value())
	ws := c.MustFunc("calculator/tokenizers", "ExpressionWordState", "NextToken")
	key := c.FuncKey(ws) + "#keyword-match"
	good := false
	for _, b := range ws.Blocks {
		for _, in := range b.Instrs {
			bo, ok := in.(*ssa.BinOp)
			if !ok || bo.Op != token.EQL || bo.X.Type().String() != "string" {
				continue
			}
			_, a1, ok1 := isFoldCall(bo.X)
			_, a2, ok2 := isFoldCall(bo.Y)
			arg := a1
			if ok2 {
				arg = a2
			}
			if ok1 != ok2 {
				if call, ok := arg.(*ssa.Call); ok {
					if f := calleeObj(call.Common()); f != nil && f.Name() == "Value" {
						good = true
					}
				}
			}
		}
	}
	o.check(good, key, c.Pos(ws.Pos()), "the upper-cased word is compared with the (upper-case) keyword table", "keywords are not matched case-insensitively against the table")
	return o.list
}

// ---- LEX.dispatch ------------------------------------------------------------------------------------------

type dispatchReg struct {
	from, to int64
	state    string
}

// foldRegistrations reads the straight-line SetCharacterState(a, b, c.XState()) sequence of a constructor.
func (c *Ctx) foldRegistrations(fn *ssa.Function) ([]dispatchReg, string) {
	var regs []dispatchReg
	cleared := false
	for _, ci := range allCalls(fn) {
		f := calleeObj(ci.Common())
		if f == nil {
			continue
		}
		if f.Name() == "ClearCharacterStates" {
			regs = nil
			cleared = true
			continue
		}
		if f.Name() != "SetCharacterState" {
			continue
		}
		if !cleared {
			return nil, "a state is registered before ClearCharacterStates()"
		}
		args := callArgs(ci.Common())
		a, oka := constInt(stripConv(args[0]))
		b, okb := constInt(stripConv(args[1]))
		if !oka || !okb {
			return nil, "non-constant range in " + c.Pos(ci.Pos())
		}
		st := ""
		if call, ok := stripConv(args[2]).(*ssa.Call); ok {
			if g := calleeObj(call.Common()); g != nil {
				st = strings.TrimSuffix(g.Name(), "State")
			}
		}
		if st == "" {
			return nil, "state argument is not an accessor call in " + c.Pos(ci.Pos())
		}
		if b >= 0xffff {
			b = 0xfffe
		}
		regs = append(regs, dispatchReg{a, b, st})
	}
	return regs, ""
}

func lookupDispatch(regs []dispatchReg, ch int64) string {
	for i := len(regs) - 1; i >= 0; i-- {
		if ch >= regs[i].from && ch <= regs[i].to {
			return regs[i].state
		}
	}
	return "none"
}

type probe struct {
	ch   int64
	want string
}

func ruleLexDispatch(c *Ctx) []*Obligation {
	o := newObl("LEX.dispatch")
	common := func(word0x100 string) []probe {
		return []probe{
			{0, "Whitespace"}, {'\t', "Whitespace"}, {'\n', "Whitespace"}, {'\r', "Whitespace"}, {' ', "Whitespace"},
			{'a', "Word"}, {'z', "Word"}, {'A', "Word"}, {'Z', "Word"}, {0xC0, "Word"}, {0xD7, "Word"}, {0xF7, "Word"}, {0xFF, "Word"},
			{0xBF, "Symbol"}, {'!', "Symbol"}, {'(', "Symbol"}, {')', "Symbol"}, {'*', "Symbol"}, {'+', "Symbol"}, {',', "Symbol"},
			{'<', "Symbol"}, {'=', "Symbol"}, {'>', "Symbol"}, {'[', "Symbol"}, {']', "Symbol"}, {'^', "Symbol"}, {'%', "Symbol"}, {'{', "Symbol"}, {'}', "Symbol"}, {0x7F, "Symbol"},
			{'"', "Quote"}, {'\'', "Quote"},
			{0x100, word0x100}, {0x400, word0x100}, {0xFFFE, word0x100},
		}
	}
	specs := []struct {
		pkg, ctor string
		probes    []probe
	}{
		{pkgGeneric, "NewGenericTokenizer", append(common("Word"),
			probe{'0', "Number"}, probe{'9', "Number"}, probe{'-', "Number"}, probe{'.', "Number"}, probe{'#', "Comment"}, probe{'/', "Symbol"}, probe{'_', "Symbol"}, probe{'@', "Symbol"})},
		{"calculator/tokenizers", "NewExpressionTokenizer", append(common("Symbol"),
			probe{'0', "Number"}, probe{'9', "Number"}, probe{'-', "Number"}, probe{'.', "Number"}, probe{'/', "Comment"}, probe{'_', "Word"}, probe{'#', "Symbol"}, probe{'@', "Symbol"})},
		{"mustache/tokenizers", "NewMustacheTokenizer", append(common("Word"),
			probe{'0', "Word"}, probe{'9', "Word"}, probe{'_', "Word"}, probe{'-', "Symbol"}, probe{'.', "Symbol"}, probe{'/', "Symbol"}, probe{'#', "Symbol"}, probe{'!', "Symbol"})},
	}
	for _, s := range specs {
		fn := c.MustFunc(s.pkg, "", s.ctor)
		regs, why := c.foldRegistrations(fn)
		if why != "" {
			o.undecided(c.FuncKey(fn)+"#registrations", c.Pos(fn.Pos()), why)
			continue
		}
		for _, p := range s.probes {
			key := fmt.Sprintf("%s#char#U+%04X", c.FuncKey(fn), p.ch)
			got := lookupDispatch(regs, p.ch)
			if got == p.want {
				o.ok(key, c.Pos(fn.Pos()), fmt.Sprintf("→ %s state", got))
			} else {
				o.bad(key, c.Pos(fn.Pos()), fmt.Sprintf("character U+%04X (%q) is dispatched to the %s state, the lexical classes require the %s state: lexemes starting with it are mis-classified or split", p.ch, rune(p.ch), got, p.want))
			}
		}
	}
	// word-part characters of the word states
	for _, s := range []struct {
		pkg, ctor string
		yes, no   []int64
	}{
		{pkgGeneric, "NewGenericWordState", []int64{'a', 'Z', '0', '9', '-', '_', 0xC0, 0xFF, 0x100, 0xFFFE}, []int64{' ', '.', '+', '"', 0xBF}},
		{"calculator/tokenizers", "NewExpressionWordState", []int64{'a', 'Z', '0', '9', '_', 0xC0, 0xFF, 0x100, 0xFFFE}, []int64{' ', '.', '+', '-', '"', 0xBF}},
	} {
		fn := c.MustFunc(s.pkg, "", s.ctor)
		var regs []dispatchReg
		bad := ""
		for _, ci := range allCalls(fn) {
			f := calleeObj(ci.Common())
			if f == nil {
				continue
			}
			if f.Name() == "ClearWordChars" {
				regs = nil
			}
			if f.Name() == "SetWordChars" {
				args := callArgs(ci.Common())
				a, oka := constInt(stripConv(args[0]))
				b, okb := constInt(stripConv(args[1]))
				en, oke := args[2].(*ssa.Const)
				if !oka || !okb || !oke {
					bad = "non-constant word-character registration"
					continue
				}
				if b >= 0xffff {
					b = 0xfffe
				}
				st := "off"
				if constant.BoolVal(en.Value) {
					st = "on"
				}
				regs = append(regs, dispatchReg{a, b, st})
			}
		}
		// the generic word state is configured in its own constructor; the expression state inherits and reconfigures
		key := c.FuncKey(fn) + "#word-part-characters"
		for _, ch := range s.yes {
			if lookupDispatch(regs, ch) != "on" {
				bad = fmt.Sprintf("U+%04X must be allowed inside a word", ch)
			}
		}
		for _, ch := range s.no {
			if lookupDispatch(regs, ch) == "on" {
				bad = fmt.Sprintf("U+%04X must end a word", ch)
			}
		}
		o.check(bad == "", key, c.Pos(fn.Pos()), fmt.Sprintf("%d inside-word / %d word-ending probes", len(s.yes), len(s.no)), bad)
	}
	return o.list
}

// ---- LEX.charsets ------------------------------------------------------------------------------------------

// charAlternatives: for each block entered only through character-constant matches (x == 'c' true edges or
// x != 'c' false edges), the set of constants; plus single-constant matches.
func (c *Ctx) charAlternatives(fn *ssa.Function) []string {
	seen := map[string]bool{}
	for _, b := range fn.Blocks {
		var ks []int64
		all := len(b.Preds) > 0
		for _, p := range b.Preds {
			ifi, ok := p.Instrs[len(p.Instrs)-1].(*ssa.If)
			if !ok {
				all = false
				break
			}
			bo, ok := ifi.Cond.(*ssa.BinOp)
			if !ok {
				all = false
				break
			}
			k, isK := constInt(bo.Y)
			if !isK || (bo.Op != token.EQL && bo.Op != token.NEQ) || !isRuneType(bo.X) {
				all = false
				break
			}
			matchEdge := 0
			if bo.Op == token.NEQ {
				matchEdge = 1
			}
			if p.Succs[matchEdge] != b || p.Succs[1-matchEdge] == b {
				all = false
				break
			}
			ks = append(ks, k)
		}
		if !all || len(ks) == 0 {
			continue
		}
		sort.Slice(ks, func(i, j int) bool { return ks[i] < ks[j] })
		var parts []string
		for _, k := range ks {
			parts = append(parts, fmt.Sprintf("%q", rune(k)))
		}
		seen["{"+strings.Join(parts, ",")+"}"] = true
	}
	var out []string
	for s := range seen {
		out = append(out, s)
	}
	sort.Strings(out)
	return out
}

// charConstants: every rune constant a state compares a character with.
func (c *Ctx) charConstants(fn *ssa.Function) []string {
	seen := map[string]bool{}
	for _, b := range fn.Blocks {
		for _, in := range b.Instrs {
			bo, ok := in.(*ssa.BinOp)
			if !ok || (bo.Op != token.EQL && bo.Op != token.NEQ) || !isRuneType(bo.X) {
				continue
			}
			if k, isK := constInt(bo.Y); isK {
				seen[fmt.Sprintf("%q", rune(k))] = true
			}
		}
	}
	var out []string
	for s := range seen {
		out = append(out, s)
	}
	sort.Strings(out)
	return out
}

func isRuneType(v ssa.Value) bool {
	return v.Type().String() == "rune" || v.Type().String() == "int32"
}

func ruleLexCharsets(c *Ctx) []*Obligation {
	o := newObl("LEX.charsets")
	for _, s := range []struct {
		pkg, recv, name string
		want            []string
		what            string
		mode            string
	}{
		{pkgGeneric, "GenericNumberState", "NextToken", []string{`{'-'}`, `{'.'}`}, "optional leading '-', digits, optional '.' fraction", "alts"},
		{"calculator/tokenizers", "ExpressionNumberState", "NextToken", []string{`{'+','-'}`, `{'-'}`, `{'E','e'}`}, "leading '-' handed to the symbol state; exponent marker e|E; exponent sign +|-", "alts"},
		{pkgGeneric, "CppCommentState", "NextToken", []string{`{'*'}`, `{'/'}`}, "'/' followed by '*' (block) or '/' (line)", "alts"},
		{pkgGeneric, "CCommentState", "NextToken", []string{`{'*'}`, `{'/'}`}, "'/' (dispatch character) followed by '*'", "alts"},
		{pkgGeneric, "CppCommentState", "GetMultiLineComment", []string{`'*'`, `'/'`}, "a block comment ends after '*' '/'", "consts"},
		{pkgGeneric, "GenericCommentState", "NextToken", []string{`'\n'`, `'\r'`}, "a line comment ends before LF or CR", "consts"},
		{"calculator/tokenizers", "ExpressionQuoteState", "NextToken", []string{`{'"'}`}, "double-quoted text is an identifier (Word), single-quoted a string", "alts"},
		{"mustache/tokenizers", "MustacheSpecialState", "NextToken", []string{`{'{'}`}, "text ends before '{{'", "alts"},
	} {
		fn := c.MustFunc(s.pkg, s.recv, s.name)
		got := c.charAlternatives(fn)
		if s.mode == "consts" {
			got = c.charConstants(fn)
		}
		key := c.FuncKey(fn) + "#terminal-alternatives"
		// every wanted alternative must be present; extra alternatives are a deviation as well
		missing, extra := []string{}, []string{}
		gs := map[string]bool{}
		for _, g := range got {
			gs[g] = true
		}
		ws := map[string]bool{}
		for _, w := range s.want {
			ws[w] = true
			if !gs[w] {
				missing = append(missing, w)
			}
		}
		for _, g := range got {
			if !ws[g] {
				extra = append(extra, g)
			}
		}
		if len(missing) == 0 && len(extra) == 0 {
			o.ok(key, c.Pos(fn.Pos()), strings.Join(got, " ")+" — "+s.what)
		} else {
			o.bad(key, c.Pos(fn.Pos()), fmt.Sprintf("the state tests the character alternatives %v; the lexical grammar (%s) needs %v (missing %v, unexpected %v): some well-formed lexeme is cut differently", got, s.what, s.want, missing, extra))
		}
	}
	return o.list
}

// ---- LEX.classes ----------------------------------------------------------------------------------------------

func ruleLexClasses(c *Ctx) []*Obligation {
	o := newObl("LEX.classes")
	names := c.constNames("tokenizers", "")
	want := map[string][]string{
		"GenericWordState": {"Word"}, "ExpressionWordState": {"Keyword"}, "GenericNumberState": {"Float", "Integer"}, "ExpressionNumberState": {"Float"},
		"GenericQuoteState": {"Quoted"}, "ExpressionQuoteState": {"Quoted", "Word"}, "CsvQuoteState": {"Quoted"},
		"GenericCommentState": {"Comment"}, "CppCommentState": {"Comment"}, "CCommentState": {"Comment"},
		"GenericWhitespaceState": {"Whitespace"}, "MustacheSpecialState": {"Special"}, "CsvSymbolState": {"Symbol"},
	}
	for _, fn := range c.tokenizerStateFuncs() {
		recv := ""
		if r := fn.Signature.Recv(); r != nil {
			recv = shortType(r.Type())
			recv = recv[strings.LastIndex(recv, ".")+1:]
		}
		w, ok := want[recv]
		if !ok {
			continue
		}
		got := map[string]bool{}
		for _, ci := range allCalls(fn) {
			cc, isN := c.callTo(ci, "tokenizers", "", "NewToken")
			if !isN {
				continue
			}
			for _, leaf := range phiLeaves(cc.Args[0]) {
				if k, isK := constInt(leaf); isK {
					got[names[k]] = true
				} else {
					got["<computed>"] = true
				}
			}
		}
		var gl []string
		for g := range got {
			gl = append(gl, g)
		}
		sort.Strings(gl)
		key := c.FuncKey(fn) + "#emitted-classes"
		if strings.Join(gl, ",") == strings.Join(w, ",") {
			o.ok(key, c.Pos(fn.Pos()), "emits "+strings.Join(gl, ","))
		} else {
			o.bad(key, c.Pos(fn.Pos()), fmt.Sprintf("%s emits token classes %v, its lexical class is %v", recv, gl, w))
		}
	}
	return o.list
}
