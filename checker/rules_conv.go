package main

import (
	"fmt"
	"go/constant"
	"go/token"
	"sort"
	"strings"

	"golang.org/x/tools/go/ssa"
)

// ---------------------------------------------------------------------------------------------
// CONV — conversion matrices of both managers (C07)
// ---------------------------------------------------------------------------------------------

type convCell struct {
	setter string
	expr   string
	pos    token.Pos
	fn     *ssa.Function
}

type convModel struct {
	mgr         string
	convert     *ssa.Function
	cells       map[string]map[string][]convCell // source → target → cells
	delegates   map[string]*ssa.Function         // source → convertFromX
	passthrough map[string]token.Pos             // sources whose case returns the argument unchanged
	prefix      []string                         // rendered prefix rules, in order
	identityOK  bool
	identityWhy string
	nullOK      bool
	stringRule  string // unsafe manager: newType == String rule
	valueRets   []string
}

var convMemo = map[string]*convModel{}

func (c *Ctx) convModelOf(mgr string) *convModel {
	if m, ok := convMemo[mgr]; ok {
		return m
	}
	fn := c.MustFunc(pkgVariants, mgr, "Convert")
	tn := c.variantTypeNames()
	m := &convModel{mgr: mgr, convert: fn, cells: map[string]map[string][]convCell{}, delegates: map[string]*ssa.Function{}, passthrough: map[string]token.Pos{}}
	value, newType := fn.Params[1], fn.Params[2]
	addCell := func(src, dst string, cell convCell) {
		if m.cells[src] == nil {
			m.cells[src] = map[string][]convCell{}
		}
		m.cells[src][dst] = append(m.cells[src][dst], cell)
	}
	// cells of a helper or inline region: tests `newTypeParam == T` → SetAs*(res, expr)
	cellsIn := func(f *ssa.Function, ntParam ssa.Value, src string, within *ssa.BasicBlock) {
		ex := c.newExpr(f)
		var res ssa.Value
		for _, ci := range allCalls(f) {
			if _, ok := c.callTo(ci, pkgVariants, "", "EmptyVariant"); ok && res == nil {
				res = ci.(*ssa.Call)
			}
		}
		for _, b := range f.Blocks {
			if within != nil && !within.Dominates(b) {
				continue
			}
			ifi, ok := b.Instrs[len(b.Instrs)-1].(*ssa.If)
			if !ok {
				continue
			}
			bo, ok := ifi.Cond.(*ssa.BinOp)
			if !ok || bo.Op != token.EQL || bo.X != ntParam {
				continue
			}
			k, ok := constInt(bo.Y)
			if !ok {
				continue
			}
			dst := tn[k]
			for _, d := range dominatedBlocks(b.Succs[0]) {
				for _, in := range d.Instrs {
					call, ok := in.(*ssa.Call)
					if !ok {
						continue
					}
					g := calleeObj(call.Common())
					if g == nil || recvNamed(g) != "Variant" || !strings.HasPrefix(g.Name(), "SetAs") {
						continue
					}
					if res != nil && callRecv(call.Common()) != res {
						continue
					}
					addCell(src, dst, convCell{setter: strings.TrimPrefix(g.Name(), "SetAs"), expr: ex.str(callArgs(call.Common())[0]), pos: call.Pos(), fn: f})
				}
			}
		}
	}
	for _, b := range fn.Blocks {
		ifi, ok := b.Instrs[len(b.Instrs)-1].(*ssa.If)
		if !ok {
			continue
		}
		recv, k, op, ok := c.typeTestConst(ifi.Cond, pkgVariants, "Variant")
		if !ok || op != token.EQL || recv != ssa.Value(value) {
			continue
		}
		src := tn[k]
		body := b.Succs[0]
		for _, d := range dominatedBlocks(body) {
			for _, in := range d.Instrs {
				if call, ok := in.(*ssa.Call); ok {
					if g := call.Call.StaticCallee(); g != nil && c.InModule(g) && strings.HasPrefix(g.Name(), "convertFrom") {
						m.delegates[src] = g
					}
				}
				if ret, ok := in.(*ssa.Return); ok && len(ret.Results) == 2 && ret.Results[0] == ssa.Value(value) {
					m.passthrough[src] = ret.Pos()
				}
			}
		}
	}
	for src, g := range m.delegates {
		var nt ssa.Value
		for _, p := range g.Params {
			if p.Type().String() == newType.Type().String() {
				nt = p
			}
		}
		if nt != nil {
			cellsIn(g, nt, src, nil)
		}
	}
	// prefix rules in Convert itself
	ex := c.newExpr(fn)
	for _, ret := range returnsOf(fn) {
		if len(ret.Results) != 2 || !isNilConst(ret.Results[1]) {
			continue
		}
		conds := c.entryConds(ret.Block(), ex)
		desc := ex.str(ret.Results[0])
		if ret.Results[0] == ssa.Value(value) {
			m.valueRets = append(m.valueRets, strings.Join(conds, " || ")+" @"+c.Pos(ret.Pos()))
			if _, isPass := func() (token.Pos, bool) {
				for _, p := range m.passthrough {
					if p == ret.Pos() {
						return p, true
					}
				}
				return 0, false
			}(); isPass {
				continue
			}
			sort.Strings(conds)
			if strings.Join(conds, " || ") == "($2 == Object) || ($2 == Type($1))" {
				m.identityOK = true
				// must come before any dispatch on the source type
				for _, b := range fn.Blocks {
					if ifi, ok := b.Instrs[len(b.Instrs)-1].(*ssa.If); ok {
						if recv, _, _, ok := c.typeTestConst(ifi.Cond, pkgVariants, "Variant"); ok && recv == ssa.Value(value) {
							if !identityDominates(ret.Block(), b) {
								m.identityOK = false
								m.identityWhy = "a dispatch on the source type is reachable before the identity rule"
							}
						}
					}
				}
			} else {
				m.identityWhy = "the argument is returned unchanged under [" + strings.Join(conds, " || ") + "]"
			}
			continue
		}
		m.prefix = append(m.prefix, strings.Join(conds, " || ")+" → "+desc)
	}
	// inline cells in Convert (newType == String rule of the unsafe manager, Null rule)
	for _, b := range fn.Blocks {
		ifi, ok := b.Instrs[len(b.Instrs)-1].(*ssa.If)
		if !ok {
			continue
		}
		bo, ok := ifi.Cond.(*ssa.BinOp)
		if !ok || bo.Op != token.EQL || bo.X != ssa.Value(newType) {
			continue
		}
		k, ok := constInt(bo.Y)
		if !ok {
			continue
		}
		body := b.Succs[0]
		if len(body.Preds) != 1 {
			continue
		}
		for _, in := range body.Instrs {
			if call, ok := in.(*ssa.Call); ok {
				g := calleeObj(call.Common())
				if g != nil && recvNamed(g) == "Variant" && strings.HasPrefix(g.Name(), "SetAs") {
					addCell("*", tn[k], convCell{setter: strings.TrimPrefix(g.Name(), "SetAs"), expr: ex.str(callArgs(call.Common())[0]), pos: call.Pos(), fn: fn})
				}
			}
			if ret, ok := in.(*ssa.Return); ok && tn[k] == "Null" && len(ret.Results) == 2 {
				if rc, ok := ret.Results[0].(*ssa.Call); ok {
					if _, isE := c.callTo(rc, pkgVariants, "", "EmptyVariant"); isE {
						m.nullOK = true
					}
				}
			}
		}
	}
	convMemo[mgr] = m
	return m
}

// identityDominates: every path to the dispatch block passes the identity tests, i.e. the blocks whose
// true edges lead to the identity return dominate it.
func identityDominates(identityRet, dispatch *ssa.BasicBlock) bool {
	for _, p := range identityRet.Preds {
		if !p.Dominates(dispatch) {
			return false
		}
	}
	return len(identityRet.Preds) > 0
}

// entryConds renders the conditions under which a block is entered when all its predecessors are
// true edges of Ifs (an OR), or the single dominating guard otherwise.
func (c *Ctx) entryConds(b *ssa.BasicBlock, ex *exprCtx) []string {
	var out []string
	allTrue := len(b.Preds) > 0
	for _, p := range b.Preds {
		ifi, ok := p.Instrs[len(p.Instrs)-1].(*ssa.If)
		if !ok || p.Succs[0] != b || p.Succs[1] == b {
			allTrue = false
			break
		}
		for _, a := range orAtoms(ifi.Cond, 4) {
			out = append(out, ex.str(a))
		}
	}
	if allTrue {
		return out
	}
	out = nil
	for _, g := range guardsAt(b) {
		s := ex.str(g.Cond)
		if !g.Truth {
			s = "!" + s
		}
		out = append(out, s)
		break
	}
	return out
}

// unsafe conversion matrix, written from the statement's conventions (milliseconds, Unix seconds, widening by
// direct conversion, boolean ↔ numeric as !=0 / 1|0) and confirmed by reading; the String and Null targets are prefix rules.
var convUnsafeOracle = map[string]map[string]cellSpec{
	"Integer": {
		"Long": {"Long", "conv<int64>(AsInteger($1))"}, "Float": {"Float", "conv<float32>(AsInteger($1))"}, "Double": {"Double", "conv<float64>(AsInteger($1))"},
		"DateTime": {"DateTime", "time.Unix(conv<int64>(AsInteger($1)), 0)"},
		"TimeSpan": {"TimeSpan", "(1000000 * conv<time.Duration>(AsInteger($1)))"},
		"Boolean":  {"Boolean", "(0 != AsInteger($1))"},
	},
	"Long": {
		"Integer": {"Integer", "conv<int>(AsLong($1))"}, "Float": {"Float", "conv<float32>(AsLong($1))"}, "Double": {"Double", "conv<float64>(AsLong($1))"},
		"DateTime": {"DateTime", "time.Unix(AsLong($1), 0)"},
		"TimeSpan": {"TimeSpan", "(1000000 * conv<time.Duration>(AsLong($1)))"},
		"Boolean":  {"Boolean", "(0 != AsLong($1))"},
	},
	"Float": {
		"Integer": {"Integer", "conv<int>(math.Trunc(conv<float64>(AsFloat($1))))"}, "Long": {"Long", "conv<int64>(math.Trunc(conv<float64>(AsFloat($1))))"},
		"Double": {"Double", "conv<float64>(AsFloat($1))"}, "Boolean": {"Boolean", "(0 != AsFloat($1))"},
	},
	"Double": {
		"Integer": {"Integer", "conv<int>(math.Trunc(AsDouble($1)))"}, "Long": {"Long", "conv<int64>(math.Trunc(AsDouble($1)))"},
		"Float": {"Float", "conv<float32>(AsDouble($1))"}, "Boolean": {"Boolean", "(0 != AsDouble($1))"},
	},
	"DateTime": {
		"Integer": {"Integer", "conv<int>(time.Time.Unix(AsDateTime($1)))"}, "Long": {"Long", "time.Time.Unix(AsDateTime($1))"},
	},
	"TimeSpan": {
		"Integer": {"Integer", "conv<int>(time.Duration.Milliseconds(AsTimeSpan($1)))"}, "Long": {"Long", "time.Duration.Milliseconds(AsTimeSpan($1))"},
	},
}

var convSafeWhitelist = map[string][]string{"Integer": {"Long", "Float", "Double"}, "Long": {"Float", "Double"}, "Float": {"Double"}}

func init() {
	register(&Rule{ID: "CONV.tag", Floor: 50,
		Doc: "every conversion cell stores its result through the setter of the requested type (SetAs<T> inside case T), in both managers; requesting Null yields a fresh Null variant",
		Run: ruleConvTag})
	register(&Rule{ID: "CONV.identity", Floor: 2,
		Doc: "the argument itself is returned exactly when its own type or Object is requested — before any dispatch on the source type, and nowhere else — in both managers",
		Run: ruleConvIdentity})
	register(&Rule{ID: "CONV.whitelist", Floor: 8,
		Doc: "the type-safe manager succeeds exactly for Integer→Long/Float/Double, Long→Float/Double, Float→Double (plus the identity/Object/Null rules); every other source/target pair ends in the CONV_NOT_SUPPORTED return",
		Run: ruleConvWhitelist})
	register(&Rule{ID: "CONV.agree", Floor: 6,
		Doc: "wherever the type-safe manager converts, its payload expression is identical to the type-unsafe manager's cell for the same source and target",
		Run: ruleConvAgree})
	register(&Rule{ID: "CONV.cell", Floor: 24,
		Doc: "the type-unsafe manager's numeric/temporal cells are the statement's conventions: widening = direct Go conversion, float→integer = truncation, boolean = (x != 0), time span = x · time.Millisecond and .Milliseconds(), date-time = time.Unix(x, 0) and .Unix()",
		Run: ruleConvCell})
}

var managers = []string{"TypeUnsafeVariantOperations", "TypeSafeVariantOperations"}

func ruleConvTag(c *Ctx) []*Obligation {
	o := newObl("CONV.tag")
	for _, mgr := range managers {
		m := c.convModelOf(mgr)
		var srcs []string
		for s := range m.cells {
			srcs = append(srcs, s)
		}
		sort.Strings(srcs)
		for _, s := range srcs {
			var dsts []string
			for d := range m.cells[s] {
				dsts = append(dsts, d)
			}
			sort.Strings(dsts)
			for _, d := range dsts {
				key := fmt.Sprintf("variants.%s#conv#%s→%s#tag", mgr, s, d)
				bad := ""
				for _, cell := range m.cells[s][d] {
					want := d
					if d == "Object" {
						want = "Object"
					}
					if cell.setter != want {
						bad = fmt.Sprintf("conversion %s→%s stores its result with SetAs%s: the returned variant does not have the requested type", s, d, cell.setter)
					}
				}
				if bad != "" {
					o.bad(key, c.Pos(m.cells[s][d][0].pos), bad)
				} else {
					o.ok(key, c.Pos(m.cells[s][d][0].pos), "SetAs"+d)
				}
			}
		}
		key := fmt.Sprintf("variants.%s#conv#*→Null#fresh-null", mgr)
		o.check(m.nullOK, key, c.Pos(m.convert.Pos()), "newType == Null returns EmptyVariant()", "requesting Null no longer returns a fresh Null variant")
		for s, p := range m.passthrough {
			o.bad(fmt.Sprintf("variants.%s#conv#%s→*#passthrough", mgr, s), c.Pos(p), fmt.Sprintf("case %s returns the argument unchanged for every requested type: a 'successful' conversion whose result does not have the requested type", s))
		}
	}
	return o.list
}

func ruleConvIdentity(c *Ctx) []*Obligation {
	o := newObl("CONV.identity")
	for _, mgr := range managers {
		m := c.convModelOf(mgr)
		key := fmt.Sprintf("variants.%s#conv#identity", mgr)
		if m.identityOK {
			o.ok(key, c.Pos(m.convert.Pos()), "returns the argument itself under newType == value.Type() || newType == Object, before any dispatch")
		} else {
			why := m.identityWhy
			if why == "" {
				why = "no return of the unchanged argument under (newType == value.Type() || newType == Object) found"
			}
			o.bad(key, c.Pos(m.convert.Pos()), why)
		}
	}
	return o.list
}

func ruleConvWhitelist(c *Ctx) []*Obligation {
	o := newObl("CONV.whitelist")
	m := c.convModelOf("TypeSafeVariantOperations")
	seen := map[string]bool{}
	for s, ds := range m.cells {
		for d, cells := range ds {
			key := fmt.Sprintf("variants.TypeSafeVariantOperations#conv#%s→%s#allowed", s, d)
			allowed := false
			for _, w := range convSafeWhitelist[s] {
				if w == d {
					allowed = true
				}
			}
			seen[s+"→"+d] = true
			if allowed {
				o.ok(key, c.Pos(cells[0].pos), "whitelisted numeric widening")
			} else {
				o.bad(key, c.Pos(cells[0].pos), fmt.Sprintf("the type-safe manager converts %s→%s, which is not one of the permitted widenings", s, d))
			}
		}
	}
	var srcs []string
	for s := range convSafeWhitelist {
		srcs = append(srcs, s)
	}
	sort.Strings(srcs)
	for _, s := range srcs {
		for _, d := range convSafeWhitelist[s] {
			if !seen[s+"→"+d] {
				o.bad(fmt.Sprintf("variants.TypeSafeVariantOperations#conv#%s→%s#allowed", s, d), c.Pos(m.convert.Pos()), fmt.Sprintf("permitted widening %s→%s is no longer implemented", s, d))
			}
		}
	}
	// every non-success return of Convert and its helpers is the CONV_NOT_SUPPORTED error
	fns := []*ssa.Function{m.convert}
	for _, g := range m.delegates {
		fns = append(fns, g)
	}
	sort.Slice(fns, func(i, j int) bool { return fns[i].Name() < fns[j].Name() })
	for _, f := range fns {
		key := fmt.Sprintf("variants.TypeSafeVariantOperations.%s#fallback-error", f.Name())
		okErr := false
		for _, s := range c.errorCtorSites() {
			if s.fn == f && s.code == "CONV_NOT_SUPPORTED" && s.live {
				okErr = true
			}
		}
		o.check(okErr, key, c.Pos(f.Pos()), "falls back to a returned CONV_NOT_SUPPORTED error", "no returned CONV_NOT_SUPPORTED error: unsupported conversions are not reported")
	}
	return o.list
}

func ruleConvAgree(c *Ctx) []*Obligation {
	o := newObl("CONV.agree")
	safe := c.convModelOf("TypeSafeVariantOperations")
	unsafe := c.convModelOf("TypeUnsafeVariantOperations")
	for s, ds := range safe.cells {
		for d, cells := range ds {
			key := fmt.Sprintf("variants#conv#%s→%s#safe=unsafe", s, d)
			uc := unsafe.cells[s][d]
			if len(uc) == 0 {
				o.bad(key, c.Pos(cells[0].pos), "the type-unsafe manager has no cell for this pair")
				continue
			}
			if cells[0].expr == uc[0].expr && cells[0].setter == uc[0].setter {
				o.ok(key, c.Pos(cells[0].pos), "both compute "+cells[0].expr)
			} else {
				o.bad(key, c.Pos(cells[0].pos), fmt.Sprintf("type-safe computes SetAs%s(%s) but type-unsafe computes SetAs%s(%s)", cells[0].setter, cells[0].expr, uc[0].setter, uc[0].expr))
			}
		}
	}
	return o.list
}

func ruleConvCell(c *Ctx) []*Obligation {
	o := newObl("CONV.cell")
	m := c.convModelOf("TypeUnsafeVariantOperations")
	var srcs []string
	for s := range convUnsafeOracle {
		srcs = append(srcs, s)
	}
	sort.Strings(srcs)
	for _, s := range srcs {
		var dsts []string
		for d := range convUnsafeOracle[s] {
			dsts = append(dsts, d)
		}
		sort.Strings(dsts)
		for _, d := range dsts {
			spec := convUnsafeOracle[s][d]
			key := fmt.Sprintf("variants.TypeUnsafeVariantOperations#conv#%s→%s#cell", s, d)
			cells := m.cells[s][d]
			if len(cells) == 0 {
				o.bad(key, c.Pos(m.convert.Pos()), fmt.Sprintf("conversion %s→%s is missing", s, d))
				continue
			}
			got := cells[0].expr
			if got == spec.expr || convEquivalent(got, spec.expr) {
				o.ok(key, c.Pos(cells[0].pos), got)
			} else {
				o.bad(key, c.Pos(cells[0].pos), fmt.Sprintf("%s→%s computes %s, the statement's convention is %s", s, d, got, spec.expr))
			}
		}
	}
	return o.list
}

// convEquivalent accepts spellings that are equal by the language: float→int conversion truncates
// toward zero by itself, so math.Trunc is optional.
func convEquivalent(got, want string) bool {
	strip := func(s string) string {
		s = strings.ReplaceAll(s, "math.Trunc(", "(")
		return s
	}
	norm := func(s string) string {
		s = strip(s)
		for strings.Contains(s, "((") && strings.Contains(s, "))") {
			n := strings.Replace(strings.Replace(s, "((", "(", 1), "))", ")", 1)
			if n == s {
				break
			}
			s = n
		}
		return s
	}
	return norm(got) == norm(want)
}

// orAtoms flattens a boolean built by `a || b || …` (go/ssa: a phi whose constant-true edges come from
// blocks that branch on an operand, plus the last operand) into its operands; any other value is its
// own single atom.
func orAtoms(v ssa.Value, depth int) []ssa.Value {
	phi, ok := v.(*ssa.Phi)
	if !ok || depth == 0 || !isBoolType(phi.Type()) {
		return []ssa.Value{v}
	}
	var out []ssa.Value
	for i, e := range phi.Edges {
		pred := phi.Block().Preds[i]
		if k, isK := e.(*ssa.Const); isK && k.Value != nil {
			if !constant.BoolVal(k.Value) {
				return []ssa.Value{v} // an && shape, not a pure disjunction
			}
			ifi, ok := pred.Instrs[len(pred.Instrs)-1].(*ssa.If)
			if !ok || pred.Succs[0] != phi.Block() {
				return []ssa.Value{v}
			}
			out = append(out, orAtoms(ifi.Cond, depth-1)...)
			continue
		}
		out = append(out, orAtoms(e, depth-1)...)
	}
	return out
}
