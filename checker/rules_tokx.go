package main

import (
	"fmt"
	"os"
	"sort"
	"strings"
	"sync"
	"time"
)

// ---------------------------------------------------------------------------------------------
// TOK.* — the four built-in tokenizers evaluated abstractly through their exported API
// (constructor, option setters, TokenizeBuffer / SetReader / HasNextToken / NextToken, Token
// accessors) on the machine of mach.go. The oracles are the statements themselves and need no
// model of a tokenizer:
//   TOK.lossless  (C04) values concatenate to the input, only the final end marker is empty
//   TOK.position  (C12) every token sits at the forward-scan position of its first character
//   TOK.reuse     (C05) what an instance produces does not depend on what it processed before,
//                       nor on how often HasNextToken was asked
//   TOK.options   (C15, C12) each option combination yields the option-free stream with whole
//                       tokens dropped or rewritten, at the positions of the original tokens
// over every string up to a bounded length over the alphabet of state-selecting character
// classes named in C04, and a pool of longer strings of every token class.
// ---------------------------------------------------------------------------------------------

var tkKinds = []string{"expression", "generic", "csv", "mustache"}

var tkOptions = []string{"SkipUnknown", "SkipWhitespaces", "SkipComments", "SkipEof", "MergeWhitespaces", "UnifyNumbers", "DecodeStrings"}

// the alphabet of C04's quantifier: one character of every class that selects a different state
var tkAlphabet = []string{"a", "e", "1", ".", "-", "+", "/", "*", "'", "\"", "<", ">", "=", "!", "{", "}", "#", ",", " ", "\r", "\n", "_", "é", "ж", "😀", "\t", ";"}

var tkPool = []string{
	"abc", "a1_b", "Ab é", "жук", "12", "1.5", "1.5e3", "1e", "1e+", "1.e5", "2E-7x", "-3", "- 3", "-.5", ".5", ".", "..", "-", "--1", "1-1", "0x1F", "1.2.3",
	"'abc'", "'a''b'", "'abc", "\"x y\"", "\"x", "''", "'", "\"\"\"", "'a\nb'", "'ж😀'",
	"/* c */", "/* c", "// c\nx", "/ x", "/*/", "/**/", "# c\nx", "#", "a/*c*/b", "a//b",
	"<", "<=", "<>", "<<", ">=", ">>", "!=", "==", "<=>", "<<=", "=<", "!", "{{", "}}", "{{{", "}}}", "{", "}", "{{#a}}", "{{/a}}", "{{{a}}}", "{{!c}}", "{{^a}}x{{/a}}",
	" ", "  ", "\t \t", "\n", "\r\n", "\n\r", "\r", "\r\r", "a\nb", "a\r\nb", "a \n\n b", "x\ry", " a", "a ",
	"a,b", "a,\"b,c\",d", "a,b\nc,d", "\"a\"\"b\",c", ",", ",,", "a;b", "\"a\nb\",c\r\nd",
	"and", "Or", "not x", "a AND b", "true", "Null", "a like b", "x xor y",
	"1 /** doc **/ + 2 /* x */ - 3", "/***/1", "a /* boxed **/ b /**/ c", "/*/ x */ y",
	"a /* c */ b", " /**/ ", " # c\n x", "a // c\n b", "/*a*/ /*b*/", " /*a*/\t/*b*/ ",
	"{{'}}'x}}y", "{{a 😀 b}}c", "{{\"}}}\"}}", "a😀{{b}}", "{{#a}}'{{'{{/a}}", "{{a}}😀{{b}}",
	"a + b*c", "f(x, y)", "a<=b<>c", "x IS NOT NULL", "a[1]", "1+-2", "a.b", "a-b", "a - -1", "1/2", "1/*c*/2", "a'b'c", "é'ж'😀", "😀", "a😀b", "\x00", "a\x00b", "ÿĀ",
	// the conventional escape character, also at the very end of an unterminated literal
	"\\", "a\\b", "'a\\", "\"\\", "'a\\'b'", "'\\'", "{{ 'a\\", "{{\"\\\"}}", "\\n",
	// the last configurable characters and the first beyond them
	"\ufffe", "\uffff", "a\uffffb", "\ufffd",
}

// characters whose low 8 or low 16 bits equal a significant ASCII character: an implementation that narrows a
// character before classifying or storing it replaces them by that character
func init() {
	for _, c := range "<>=!{}'\"/*#,.-+1a \n\r" {
		hi8, hi16 := string(rune(0x100+c)), string(rune(0x10000+c))
		tkPool = append(tkPool, hi8, hi16, "<"+hi8, "a"+hi16+"b")
	}
}

// tkQuotePool: literals whose content starts or ends with an escaped quote, is one quote, is empty; a lone
// quote, three and five quotes (unterminated under the doubled-quote convention); an empty literal as the
// last token of the input - for both quote characters, bare and in the context of each tokenizer.
func tkQuotePool() []string {
	var out []string
	for _, q := range []string{"'", "\""} {
		a := func(parts ...string) string { return strings.ReplaceAll(strings.Join(parts, ""), "Q", q) }
		lits := []string{a("QQQaQ"), a("QaQQQ"), a("QQQaQQQ"), a("QQQQ"), a("QQQ"), a("QQQQQ"), a("QQQQQQ"), a("QaQQ"), a("QQQa"), a("QaQQbQ"), a("QQ"), a("Q Q")}
		for i, l := range lits {
			out = append(out, l, []string{"a = ", "{{ f ", "1,"}[i%3]+l)
		}
		out = append(out, a("QQQxQ)+(QyQQQ"), a("a,QQ\r\nQQ,QQ"), a("1,2\r\n3,QQ"), a("QQQaQ,QbQQQ\nQQQQ,QQ"), a("x {{ f QQ"), a("{{#a QQ}}QQ{{/a}}QQ"), a("{{QQQaQ}}"), a("QQ QQ"), a("QQ+QQ"))
	}
	return out
}

// tkFormatPool: format, zero-width and non-character code points (byte-order mark / zero width no-break
// space, zero width space, no-break space, word joiner, soft hyphen, left-to-right mark, U+FFFE) are input
// characters like any other ("every input character belongs to exactly one token"): as the first
// character, inside, as the last character, alone, doubled, and next to every token class of each tokenizer.
func tkFormatPool() []string {
	var out []string
	for _, z := range []string{"\ufeff", "\u200b", "\u00a0", "\u2060", "\ufffe", "\u00ad", "\u200e"} {
		for _, t := range []string{"Z", "ZZ", "Za", "aZ", "aZb", "Z1", "1Z", "1Z2", "Z Z", " Z", "Z ", "Z\n", "\nZ", "a\nZb", "Z'x'", "'Z'", "'xZ", "Z\"a\",b", "Z,a", "a,Z", "a,Z,b\nZ",
			"Z{{a}}", "{{Z}}", "{{a}}Z", "x{{aZ}}y", "Z/* c */", "/*Z*/", "/*Z", "//Z\nZ", "Z# c", "a + Z", "Z<=Z", "<Z=", "Z.5", "1.Z5", "-Z1"} {
			out = append(out, strings.ReplaceAll(t, "Z", z))
		}
	}
	return out
}

// tkUnclosedPool: an opener of a comment, a literal or a tag that is never closed, followed by characters
// that take two, three and four bytes in UTF-8, after some leading tokens (a put-back that counts bytes,
// UTF-16 units or anything but characters rewinds to the wrong place exactly here).
func tkUnclosedPool() []string {
	var out []string
	for _, lead := range []string{"", "a", "1 + 2 ", "é ", "x,", "😀"} {
		for _, open := range []string{"/*", "//", "#", "'", "\"", "/", "{{", "{{!", "{{ '", "{{a}}{{/*"} {
			for _, tail := range []string{"é", " café", "ж", "日本", "😀", "x😀é", "é*", "日/", "é\nж", " c 日 *", "ÿĀ€😀"} {
				out = append(out, lead+open+tail)
			}
		}
	}
	return out
}

// tkStatelessPool: characters that no state of the template tokenizer takes (U+FFFF, characters beyond U+FFFF -
// one of them with the low 16 bits of '!') are Unknown tokens of their own wherever they stand: between the
// opening braces of a tag and each operator, after the operator, doubled, next to blanks, quotes and the closing
// braces, between tags - so that dropping them (skip-unknown) must leave every other token as it was.
func tkStatelessPool() []string {
	var out []string
	for _, z := range []string{"\uffff", "😀", "\U00010021"} {
		for _, open := range []string{"{{", "{{{"} {
			cl := strings.Repeat("}", len(open))
			for _, op := range []string{"!", "#", "^", "/"} {
				for _, t := range []string{"Hello OZP it is a b Cworld", "OZPaCx", "OPZaC", "O ZPaC", "OZZP c C", "OZ PcC", "OPaZC", "OPa}ZC", "OP a Z b CZ", "OZP don't C", "OZP 'a' CZOPZbC",
					"ZOPaC", "OPaCZOZ/aC", "{ZOPaC", "OZPZ", "OZP"} {
					out = append(out, strings.NewReplacer("O", open, "C", cl, "Z", z, "P", op).Replace(t))
				}
			}
			for _, t := range []string{"OZaC", "OaZC", "OZC", "OZ", "O Z C", "Oa ZZ bC", "OZ'x'C", "O'Z'ZC"} {
				out = append(out, strings.NewReplacer("O", open, "C", cl, "Z", z).Replace(t))
			}
		}
	}
	return out
}

// tkBudget tells a run that used up its step budget from the other undecided runs: the statements require
// every input to be tokenized into a finite stream, and the budget is some hundred times what the longest
// input of the families needs, so such a run is reported as a tokenization that does not end.
func tkBudget(h *tkHarness, show, why string, maxOK int) string {
	if !strings.Contains(why, "step budget") {
		return ""
	}
	return fmt.Sprintf("%s does not end: the abstract run used up its budget of %d steps (%s; the longest run that ended, among those evaluated before on this instance, took %d steps) - every input must be tokenized into a finite stream whose values concatenate to the input, no character invented or read twice [last functions entered: %s]", show, h.m.maxSteps, why, maxOK, h.lastPath)
}

type tkSpan struct {
	typ, val  string
	line, col int64
}

// refPositions: the forward-scan position of every character offset (in runes) and of the end slot.
func refPositions(s string) (lines, cols []int64) {
	rs := []rune(s)
	line, col := int64(1), int64(0)
	at := func(i int) rune {
		if i < 0 || i >= len(rs) {
			return -1
		}
		return rs[i]
	}
	for i := 0; i <= len(rs); i++ {
		ch := at(i)
		isBreak := ch == '\n' || (ch == '\r' && at(i-1) != '\n' && at(i+1) != '\n')
		if isBreak {
			line++
			col = 0
		}
		if ch != '\n' && ch != '\r' {
			col++
		}
		lines = append(lines, line)
		cols = append(cols, col)
	}
	return
}

type tkVerdict struct {
	bad   map[string]string // check name -> first witness
	undec map[string]string
	runs  map[string]int
}

func newTkVerdict() *tkVerdict {
	return &tkVerdict{bad: map[string]string{}, undec: map[string]string{}, runs: map[string]int{}}
}

func (v *tkVerdict) note(check, bad, undec string) {
	v.runs[check]++
	if bad != "" && v.bad[check] == "" {
		v.bad[check] = bad
	}
	if undec != "" && v.undec[check] == "" {
		v.undec[check] = undec
	}
}

func (v *tkVerdict) merge(o *tkVerdict) {
	for k, n := range o.runs {
		v.runs[k] += n
	}
	for k, b := range o.bad {
		if v.bad[k] == "" || b < v.bad[k] {
			v.bad[k] = b
		}
	}
	for k, b := range o.undec {
		if v.undec[k] == "" {
			v.undec[k] = b
		}
	}
}

func (h *tkHarness) setOptions(mask int) string {
	for i, o := range tkOptions {
		if _, out := h.call("Set"+o, mask&(1<<i) != 0); out.kind != "ok" {
			return "Set" + o + ": " + out.why
		}
	}
	return ""
}

func optNames(mask int) string {
	var ns []string
	for i, o := range tkOptions {
		if mask&(1<<i) != 0 {
			ns = append(ns, o)
		}
	}
	if len(ns) == 0 {
		return "no option"
	}
	return strings.Join(ns, "+")
}

// checkBase: lossless and positions of the option-free stream.
func tkCheckBase(who, s string, toks []tkTok, v *tkVerdict, path string) {
	show := fmt.Sprintf("%s on %q", who, s)
	tail := " [last functions entered: " + path + "]"
	var sb strings.Builder
	bad := ""
	for i, t := range toks {
		sb.WriteString(t.val)
		last := i == len(toks)-1
		if t.val == "" && !(last && t.typ == "Eof") && bad == "" {
			bad = fmt.Sprintf("%s: token %d (%s) is empty [%s]", show, i, t.typ, renderToks(toks))
		}
	}
	if sb.String() != s && bad == "" {
		bad = fmt.Sprintf("%s: the token values concatenate to %q [%s]: a character is dropped, invented or replaced%s", show, sb.String(), renderToks(toks), tail)
	}
	if (len(toks) == 0 || toks[len(toks)-1].typ != "Eof") && bad == "" {
		bad = fmt.Sprintf("%s: the stream does not end with the end-of-input token [%s]", show, renderToks(toks))
	}
	v.note("lossless", bad, "")
	// positions (only meaningful when the values cover the input)
	if sb.String() != s {
		return
	}
	lines, cols := refPositions(s)
	off := 0
	bad = ""
	for i, t := range toks {
		if off < len(lines) && (t.line != lines[off] || t.col != cols[off]) && bad == "" {
			bad = fmt.Sprintf("%s: token %d %s(%q) reports %d:%d, its first character is at %d:%d in a forward scan%s", show, i, t.typ, t.val, t.line, t.col, lines[off], cols[off], tail)
		}
		off += len([]rune(t.val))
	}
	v.note("position", bad, "")
}

// tkExpect: the option-free stream with whole tokens dropped or rewritten (statement of C15).
func tkExpect(base []tkTok, fromQuote []bool, decoded [][]string, alt int, mask int) []tkTok {
	on := func(name string) bool {
		for i, o := range tkOptions {
			if o == name {
				return mask&(1<<i) != 0
			}
		}
		return false
	}
	var out []tkTok
	last := ""
	for i, t := range base {
		if t.typ == "Unknown" && on("SkipUnknown") {
			continue
		}
		if fromQuote[i] && on("DecodeStrings") {
			t.val = decoded[i][min(alt, len(decoded[i])-1)]
		}
		if t.typ == "Comment" && on("SkipComments") {
			continue
		}
		if t.typ == "Whitespace" && last == "Whitespace" && on("SkipWhitespaces") {
			continue
		}
		if t.typ == "Whitespace" && on("MergeWhitespaces") {
			t.val = " "
		}
		if on("UnifyNumbers") && (t.typ == "Integer" || t.typ == "Float" || t.typ == "HexDecimal") {
			t.typ = "Number"
		}
		if t.typ == "Eof" && on("SkipEof") {
			continue
		}
		out = append(out, t)
		last = t.typ
	}
	return out
}

// tkDecodeModel: the decoded value of a token read by the quote state, written from the statements
// (C09: "a doubled quote decodes to one quote"; C14: the encoded form - the text between a pair of
// quote characters, for the expression and CSV states with every quote inside doubled - is read back
// as one token whose decoded value is the original string; the generic state, also used for
// templates, ends a literal at the next occurrence of its opening quote and knows no escape).
// A terminated literal therefore decodes to its content: the enclosing pair removed - that one pair
// only - and every doubled quote inside standing for one. For a literal that runs into the end of
// the input no closing quote exists; the statements only say that decoding does not fail, so the raw
// text and the content read so far are both accepted (first result = the value used in reports).
func tkDecodeModel(kind, raw string) []string {
	rs := []rune(raw)
	if len(rs) == 0 {
		return []string{raw}
	}
	q := rs[0]
	doubled := kind == "expression" || kind == "csv"
	var content []rune
	for i := 1; i < len(rs); i++ {
		if rs[i] != q {
			content = append(content, rs[i])
			continue
		}
		if doubled && i+1 < len(rs) && rs[i+1] == q {
			content = append(content, q)
			i++
			continue
		}
		if i == len(rs)-1 {
			return []string{string(content)} // the closing quote
		}
		return []string{raw} // a quote in the middle of a token of the plain convention: not a literal of this state
	}
	return []string{raw, string(content)}
}

// quoteInfo: which base tokens were read by the quote state (the state the tokenizer's own
// GetCharacterState names for the first character), and their decoded values by tkDecodeModel.
func (h *tkHarness) quoteInfo(kind string, base []tkTok) (from []bool, dec [][]string, why string) {
	qs, out := h.call("QuoteState")
	if out.kind != "ok" {
		return nil, nil, "QuoteState: " + out.why
	}
	for _, t := range base {
		isQ := false
		d := []string{t.val}
		// (text outside the tags of a template is read by the special state whatever it starts with)
		if t.val != "" && t.typ != "Special" {
			first := []rune(t.val)[0]
			st, out := h.call("GetCharacterState", int64(first))
			if out.kind != "ok" {
				return nil, nil, "GetCharacterState: " + out.why
			}
			if _, qNil := qs.(mNilT); !qNil {
				if eq, known := h.m.equal(st, qs); known && eq {
					isQ = true
				}
			}
			if isQ {
				d = tkDecodeModel(kind, t.val)
			}
		}
		from = append(from, isQ)
		dec = append(dec, d)
	}
	return
}

// ---- instances configured through the exported API -------------------------------------------------
// "Any built-in tokenizer" includes one whose symbol table, separators or quote symbols were set
// through the exported API, also between two inputs. A history is a list of stages: configuration
// calls, then inputs; every stream of every stage must be lossless and correctly positioned.

type tkStage struct {
	desc   string                    // the configuration calls of this stage in words ("" = none)
	apply  func(h *tkHarness) string // "" or why the configuration could not be applied
	inputs []string
}

type tkHistory []tkStage

// addSymbols registers further symbols (plain Symbol type) with the tokenizer's symbol state.
func (h *tkHarness) addSymbols(syms ...string) string {
	sv, out := h.call("SymbolState")
	si, ok := sv.(mIface)
	if out.kind != "ok" || !ok {
		return "SymbolState: " + out.why
	}
	f := h.c.lookupMethod(si.t, "Add")
	if f == nil {
		return "the symbol state has no Add"
	}
	typ, _ := h.c.constByName("tokenizers", "Symbol")
	for _, s := range syms {
		if _, out := h.m.Call(f, si.v, s, typ); out.kind != "ok" {
			return fmt.Sprintf("SymbolState().Add(%q): %s %s", s, out.kind, out.why)
		}
	}
	return ""
}

func (h *tkHarness) setRunes(method string, rs string) string {
	var arr []mv
	for _, r := range rs {
		arr = append(arr, int64(r))
	}
	if _, out := h.call(method, mSlice{arr}); out.kind != "ok" {
		return fmt.Sprintf("%s(%q): %s %s", method, rs, out.kind, out.why)
	}
	return ""
}

// tkOver: every string up to maxLen over an alphabet (the empty string excluded).
func tkOver(alpha []string, maxLen int) []string {
	var all []string
	var rec func(p string, n int)
	rec = func(p string, n int) {
		if p != "" {
			all = append(all, p)
		}
		if n == 0 {
			return
		}
		for _, a := range alpha {
			rec(p+a, n-1)
		}
	}
	rec("", maxLen)
	return all
}

// tkSymbolInputs: inputs over the characters of additionally registered symbols: every string up to
// maxLen over those characters and a letter, and inputs that END at every point inside every symbol
// (so also inside every proper prefix, registered or not) - alone, after a word, a blank, a digit,
// the whole symbol and the same prefix; for templates also inside a tag.
func tkSymbolInputs(kind string, syms []string, maxLen int) []string {
	seen := map[string]bool{}
	var out []string
	add := func(s string) {
		if !seen[s] {
			seen[s] = true
			out = append(out, s)
		}
	}
	var alpha []string
	for _, s := range syms {
		for _, r := range s {
			if !seen["α"+string(r)] {
				seen["α"+string(r)] = true
				alpha = append(alpha, string(r))
			}
		}
	}
	alpha = append(alpha, "a")
	for _, s := range tkOver(alpha, maxLen) {
		add(s)
	}
	for _, s := range syms {
		rs := []rune(s)
		for n := 1; n <= len(rs); n++ {
			p := string(rs[:n])
			for _, pre := range []string{"", "a", "a ", "1", s, p, s + " "} {
				add(pre + p)
				if kind == "mustache" {
					add("{{" + pre + p)
					add("x{{a " + pre + p)
				}
			}
		}
	}
	return out
}

func (c *Ctx) tkHistories(kind string) []tkHistory {
	var hs []tkHistory
	maxLen := 3
	if c.Tier == "thorough" {
		maxLen = 4
	}
	if kind != "csv" {
		// further symbols of three to five characters whose proper prefixes are partly registered, partly not
		for _, syms := range [][]string{{"=:~"}, {"==="}, {"<<<<"}, {"<=>="}, {"=:~^!"}, {"=:~^!", "=:~"}, {"!~~", "!~~=<"}, {"-->"}, {"...", ".."}} {
			syms := syms
			hs = append(hs, tkHistory{{
				desc:   fmt.Sprintf("SymbolState().Add of %q", syms),
				apply:  func(h *tkHarness) string { return h.addSymbols(syms...) },
				inputs: tkSymbolInputs(kind, syms, maxLen),
			}})
		}
		// a symbol registered between two inputs
		hs = append(hs, tkHistory{
			{"", nil, []string{"=:", "a=:~", "=:~"}},
			{`SymbolState().Add("=:~")`, func(h *tkHarness) string { return h.addSymbols("=:~") }, []string{"=:", "a=:~", "=:~", "=", "=:~=:", "=:~="}},
			{`SymbolState().Add("=:~^!")`, func(h *tkHarness) string { return h.addSymbols("=:~^!") }, []string{"=:", "=:~", "=:~^", "=:~^!", "=:~^!=:~^", "a =:~^"}},
		})
		return hs
	}
	// CSV: several field separators used in one input; separators and quote symbols changed between inputs
	for _, seps := range []string{",;", ",;\t", ";|", "\t,", "、,"} {
		seps := seps
		alpha := []string{"a", "\"", "\n", " "}
		for _, r := range seps {
			alpha = append(alpha, string(r))
		}
		in := tkOver(alpha, maxLen)
		rs := []rune(seps)
		in = append(in, "a"+string(rs[0])+"b"+string(rs[1])+"c"+string(rs[len(rs)-1])+"d\n"+string(rs[1])+string(rs[0])+"\"x"+string(rs[1])+"y\""+string(rs[1])+"z")
		hs = append(hs, tkHistory{{
			desc:   fmt.Sprintf("SetFieldSeparators(%q)", seps),
			apply:  func(h *tkHarness) string { return h.setRunes("SetFieldSeparators", seps) },
			inputs: in,
		}})
	}
	rows := []string{"a,b", "a;b", "a,b;c\td|e", ",", ";", "\t", "|;,", "\"a,b\";'c;d'|e", "'", "a'b\"c", "x\r\n,;\n"}
	set := func(method, rs string) tkStage {
		return tkStage{fmt.Sprintf("%s(%q)", method, rs), func(h *tkHarness) string { return h.setRunes(method, rs) }, rows}
	}
	hs = append(hs,
		tkHistory{{"", nil, rows}, set("SetFieldSeparators", ";"), set("SetFieldSeparators", "\t|"), set("SetQuoteSymbols", "'"), set("SetFieldSeparators", ","), set("SetQuoteSymbols", "\"'")},
		tkHistory{set("SetFieldSeparators", ";"), set("SetQuoteSymbols", "'"), set("SetFieldSeparators", ",;"), set("SetQuoteSymbols", "\""), set("SetFieldSeparators", "|")},
		tkHistory{set("SetQuoteSymbols", "'"), set("SetFieldSeparators", "\""), set("SetFieldSeparators", "|,"), set("SetQuoteSymbols", "\";")},
	)
	return hs
}

// tkRunHistory evaluates one history on a fresh instance.
func (c *Ctx) tkRunHistory(kind string, hist tkHistory, v *tkVerdict) {
	h := c.newTkHarness(kind)
	if h.fault != "" {
		v.note("lossless", "", h.fault)
		return
	}
	if why := h.setOptions(0); why != "" {
		v.note("lossless", "", why)
		return
	}
	var done []string
	for _, st := range hist {
		if st.apply != nil {
			done = append(done, st.desc)
			if why := st.apply(h); why != "" {
				if strings.Contains(why, " panic ") {
					v.note("lossless", fmt.Sprintf("%s tokenizer: %s - a valid configuration is refused", kind, why), "")
				} else {
					v.note("lossless", "", kind+" tokenizer: "+why)
				}
				return
			}
		}
		label := kind + " tokenizer"
		if len(done) > 0 {
			label = fmt.Sprintf("%s tokenizer (configured by %s)", kind, strings.Join(done, ", then "))
			if len(hist) > 1 {
				label = fmt.Sprintf("%s tokenizer (configured by %s; the same instance read the inputs of the earlier stages)", kind, strings.Join(done, ", then "))
			}
		}
		for i, s := range st.inputs {
			r := h.tokenize(s)
			label := label
			if i > 0 {
				label += fmt.Sprintf(" as input %d of this stage (the one before was %q)", i+1, st.inputs[i-1])
			}
			show := fmt.Sprintf("%s on %q", label, s)
			if i%41 == 0 {
				noteSample("TOK.lossless/"+kind+"-configured", show)
			}
			switch r.kind {
			case "opaque":
				v.note("lossless", tkBudget(h, show, r.why, h.maxOK), show+": "+r.why)
			case "panic":
				v.note("lossless", show+" panics: "+r.why, "")
			default:
				tkCheckBase(label, s, r.toks, v, h.lastPath)
			}
		}
	}
}

// tkRejectingConfigs: configurations, made through the exported API only, in which the character map routes a
// character to a state that does not accept it (a whitespace or word state narrowed after the map was set up,
// a punctuation character handed to the word or whitespace state) or in which a state hands out tokens of the
// Unknown type itself (a symbol registered with that type). "With skip-unknown on there are no Unknown tokens"
// holds for these as for unmapped characters; every other option leaves such tokens untouched.
func tkRejectingConfigs(c *Ctx) []tkStage {
	unknown, _ := c.constByName("tokenizers", "Unknown")
	mix := func(chars ...string) []string {
		in := tkOver(append(chars, "a", " "), 2)
		z, y := chars[0], chars[len(chars)-1]
		return append(in, "ab"+z+"cd", "x = 1 "+z+y+" + 'q'"+z, "😀a"+y+"b😀", z+z+z, "a "+z+" /* c */ "+y+"\n"+z+"b", "12"+z+"3.5 "+y, "'"+z+"'"+y, "{{a"+z+"}}"+y+"{{ "+z+" }}", "a,"+z+",\""+y+"\"\n"+z)
	}
	return []tkStage{
		{"WhitespaceState().SetWhitespaceChars(0x01, 0x08, false)", func(h *tkHarness) string {
			return h.stateCall("WhitespaceState", "SetWhitespaceChars", int64(1), int64(8), false)
		}, mix("\x01", "\x08", "\t")},
		{"WhitespaceState().SetWhitespaceChars(' ', ' ', false)", func(h *tkHarness) string {
			return h.stateCall("WhitespaceState", "SetWhitespaceChars", int64(' '), int64(' '), false)
		}, mix("\t", "\n")},
		{"SetCharacterState('$', '$', WordState())", func(h *tkHarness) string { return h.setCharState('$', '$', "WordState") }, mix("$")},
		{"SetCharacterState('@', '~', WhitespaceState())", func(h *tkHarness) string { return h.setCharState('@', '~', "WhitespaceState") }, mix("@", "x", "~")},
		{"WordState().ClearWordChars(), WordState().SetWordChars('a', 'f', true)", func(h *tkHarness) string {
			if why := h.stateCall("WordState", "ClearWordChars"); why != "" {
				return why
			}
			return h.stateCall("WordState", "SetWordChars", int64('a'), int64('f'), true)
		}, mix("z", "Q", "é")},
		{"SymbolState().Add(\"<=\", Unknown), SymbolState().Add(\"%\", Unknown)", func(h *tkHarness) string {
			if why := h.stateCall("SymbolState", "Add", "<=", unknown); why != "" {
				return why
			}
			return h.stateCall("SymbolState", "Add", "%", unknown)
		}, mix("<", "=", "%")},
	}
}

// tkRunConfiguredOptions: on a freshly configured instance every option combination of the tier gives the
// option-free stream of that same instance with whole tokens dropped or rewritten (statement of C15).
func (c *Ctx) tkRunConfiguredOptions(kind string, cfg tkStage, masks []int, v *tkVerdict) {
	h := c.newTkHarness(kind)
	if h.fault != "" {
		v.note("options", "", h.fault)
		return
	}
	if why := h.setOptions(0); why != "" {
		v.note("options", "", why)
		return
	}
	if why := cfg.apply(h); why != "" {
		switch {
		case strings.Contains(why, " has no ") || strings.Contains(why, "not found"):
			// this tokenizer does not offer the state or the setter: nothing to configure
		case strings.Contains(why, " panic "):
			v.note("options", fmt.Sprintf("%s tokenizer: %s - a valid configuration is refused", kind, why), "")
		default:
			v.note("options", "", kind+" tokenizer: "+why)
		}
		return
	}
	label := fmt.Sprintf("%s tokenizer (configured by %s)", kind, cfg.desc)
	for i, s := range cfg.inputs {
		show := fmt.Sprintf("%s on %q", label, s)
		if i%17 == 0 {
			noteSample("TOK.options/"+kind+"-configured", show)
		}
		if why := h.setOptions(0); why != "" {
			v.note("options", "", why)
			return
		}
		r := h.tokenize(s)
		switch r.kind {
		case "opaque":
			v.note("options", tkBudget(h, show, r.why, h.maxOK), show+": "+r.why)
			continue
		case "panic":
			v.note("options", show+" panics: "+r.why, "")
			continue
		}
		from, dec, why := h.quoteInfo(kind, r.toks)
		if why != "" {
			v.note("options", "", show+": "+why)
			continue
		}
		for _, mask := range masks {
			if why := h.setOptions(mask); why != "" {
				v.note("options", "", why)
				break
			}
			got := h.tokenize(s)
			want := tkExpect(r.toks, from, dec, 0, mask)
			switch {
			case got.kind == "opaque":
				v.note("options", "", show+" with "+optNames(mask)+": "+got.why)
			case got.kind == "panic":
				v.note("options", show+" with "+optNames(mask)+" panics: "+got.why, "")
			case renderToks(got.toks) != renderToks(want) && renderToks(got.toks) != renderToks(tkExpect(r.toks, from, dec, 1, mask)):
				v.note("options", fmt.Sprintf("%s with %s gives [%s]; the option-free stream [%s] with whole tokens dropped or rewritten, at their own positions, is [%s]", show, optNames(mask), renderToks(got.toks), renderToks(r.toks), renderToks(want)), "")
			default:
				v.note("options", "", "")
			}
		}
	}
}

// tkRunLongLine: "every input": a single line of more than 2^16 characters (a run of blanks, of word characters,
// of digits, then a short token): every token still sits at the forward-scan column of its first character
// and the end-of-input token one column past the last character. The inputs are described, not printed.
func (c *Ctx) tkRunLongLine(kind string, v *tkVerdict) {
	const n = 65540
	for li, lm := range []struct{ unit, what, tail string }{{" ", "blanks", "x"}, {"a", "letters 'a'", " b 1"}, {"ab, ", "times \"ab, \"", "'q'"}} {
		if c.Tier != "thorough" && li != 0 {
			continue
		}
		h := c.newTkHarness(kind)
		if h.fault != "" {
			v.note("position", "", h.fault)
			return
		}
		h.m.maxSteps = 400000000
		if why := h.setOptions(0); why != "" {
			v.note("position", "", why)
			return
		}
		reps := n / len(lm.unit)
		s := strings.Repeat(lm.unit, reps) + lm.tail
		show := fmt.Sprintf("%s tokenizer on one line made of %d %s followed by %q", kind, reps, lm.what, lm.tail)
		noteSample("TOK.position/"+kind, show)
		t0 := time.Now()
		r := h.tokenize(s)
		if os.Getenv("MACHDEBUG") != "" {
			fmt.Fprintf(os.Stderr, "%s: %d steps, %v\n", show, h.m.steps, time.Since(t0))
		}
		switch r.kind {
		case "opaque":
			v.note("position", tkBudget(h, show, r.why, h.maxOK), show+": "+r.why)
			continue
		case "panic":
			v.note("position", show+" panics: "+r.why, "")
			continue
		}
		lines, cols := refPositions(s)
		off, bad := 0, ""
		short := func(t string) string {
			if rs := []rune(t); len(rs) > 24 {
				return fmt.Sprintf("%q… (%d characters)", string(rs[:12]), len(rs))
			}
			return fmt.Sprintf("%q", t)
		}
		for i, t := range r.toks {
			if off >= len(lines) {
				bad = fmt.Sprintf("%s: the token values are longer than the input", show)
				break
			}
			if !strings.HasPrefix(s[off:], t.val) {
				// (one-byte characters only: offsets in bytes and in characters agree)
				bad = fmt.Sprintf("%s: token %d %s(%s) is not the text at offset %d of the input: a character is dropped, invented or replaced", show, i, t.typ, short(t.val), off)
				break
			}
			if t.line != lines[off] || t.col != cols[off] {
				bad = fmt.Sprintf("%s: token %d %s(%s) reports %d:%d, its first character is at %d:%d in a forward scan [last functions entered: %s]", show, i, t.typ, short(t.val), t.line, t.col, lines[off], cols[off], h.lastPath)
				break
			}
			off += len(t.val)
		}
		if bad == "" && (off != len(s) || len(r.toks) == 0 || r.toks[len(r.toks)-1].typ != "Eof") {
			bad = fmt.Sprintf("%s: the %d tokens cover %d of the %d characters or do not end with the end-of-input token", show, len(r.toks), off, len(s))
		}
		v.note("position", bad, "")
	}
}

var tkMemo = map[string]*tkVerdict{}
var tkMu sync.Mutex

func tkStrings(maxLen int) []string {
	var all []string
	var rec func(prefix string, n int)
	rec = func(prefix string, n int) {
		all = append(all, prefix)
		if n == 0 {
			return
		}
		for _, a := range tkAlphabet {
			rec(prefix+a, n-1)
		}
	}
	rec("", maxLen)
	return all
}

func (c *Ctx) tkRun(kind, part string) *tkVerdict {
	tkMu.Lock()
	defer tkMu.Unlock()
	key := kind + "/" + c.Tier + "/" + part
	if v, ok := tkMemo[key]; ok {
		return v
	}
	maxLen := 3
	optLen := 2
	masks := []int{1, 2, 4, 8, 16, 32, 64, 127, 2 | 4, 2 | 16, 4 | 2 | 8, 64 | 32, 1 | 8, 2 | 4 | 16 | 64, 8 | 64}
	if c.Tier == "thorough" {
		maxLen = 4
		masks = nil
		for m := 1; m < 128; m++ {
			masks = append(masks, m)
		}
	}
	strs := tkStrings(maxLen)
	nBounded := len(strs)
	strs = append(strs, tkPool...)
	if part != "reuse" {
		strs = append(strs, tkQuotePool()...)
		if kind == "mustache" {
			strs = append(strs, tkStatelessPool()...)
		}
	}
	if part == "base" {
		strs = append(strs, tkFormatPool()...)
		strs = append(strs, tkUnclosedPool()...)
	}
	total := newTkVerdict()
	nw := 12
	var wg sync.WaitGroup
	parts := make([]*tkVerdict, nw)
	for w := 0; w < nw; w++ {
		wg.Add(1)
		go func(w int) {
			defer wg.Done()
			v := newTkVerdict()
			parts[w] = v
			h := c.newTkHarness(kind)
			if h.fault != "" {
				for _, ck := range []string{"lossless", "position", "options", "reuse"} {
					v.note(ck, "", h.fault)
				}
				return
			}
			fresh := map[string]string{}
			for i := w; i < len(strs); i += nw {
				s := strs[i]
				inOptions := i >= nBounded || len([]rune(s)) <= optLen
				if part == "reuse" || (part == "options" && !inOptions) {
					continue
				}
				if why := h.setOptions(0); why != "" {
					v.note("lossless", "", why)
					continue
				}
				r := h.tokenize(s)
				show := fmt.Sprintf("%s tokenizer on %q", kind, s)
				for _, rn := range []string{"TOK.lossless", "TOK.position", "TOK.options"} {
					if i%97 == 0 || i >= nBounded {
						noteSample(rn+"/"+kind, fmt.Sprintf("%q", s))
					}
				}
				switch r.kind {
				case "opaque":
					v.note("lossless", tkBudget(h, show, r.why, h.maxOK), show+": "+r.why)
					continue
				case "panic":
					v.note("lossless", show+" panics: "+r.why, "")
					continue
				}
				tkCheckBase(kind+" tokenizer", s, r.toks, v, h.lastPath)
				fresh[s] = renderToks(r.toks)
				// the string-list entry point hands out exactly the token values
				if part == "base" && (i >= nBounded || len([]rune(s)) <= 1) {
					if sv, out := h.call("TokenizeBufferToStrings", s); out.kind == "panic" {
						v.note("lossless", show+": TokenizeBufferToStrings panics: "+out.why, "")
					} else if out.kind == "ok" {
						var got []string
						okAll := true
						if sl, isSl := sv.(mSlice); isSl {
							for _, e := range sl.arr {
								str, isStr := e.(string)
								okAll = okAll && isStr
								got = append(got, str)
							}
						}
						var want []string
						for _, t := range r.toks {
							want = append(want, t.val)
						}
						if okAll && fmt.Sprintf("%q", got) != fmt.Sprintf("%q", want) {
							v.note("lossless", fmt.Sprintf("%s: TokenizeBufferToStrings gives %q; the token values are %q", show, got, want), "")
						}
					}
				}
				// options: bounded strings up to optLen and the pool
				if inOptions && part == "options" {
					from, dec, why := h.quoteInfo(kind, r.toks)
					if why != "" {
						v.note("options", "", show+": "+why)
						continue
					}
					// the string-list entry points under the same options: all inputs in the thorough tier, here the
					// inputs with a token of the quote state (a decoded value may be empty) and a sample of the others
					viaStrings := c.Tier == "thorough" || i%5 == 0
					for _, q := range from {
						viaStrings = viaStrings || (q && i >= nBounded)
					}
					for mi, mask := range masks {
						if why := h.setOptions(mask); why != "" {
							v.note("options", "", why)
							break
						}
						got := h.tokenize(s)
						want := tkExpect(r.toks, from, dec, 0, mask)
						switch {
						case got.kind == "opaque":
							v.note("options", "", show+" with "+optNames(mask)+": "+got.why)
						case got.kind == "panic":
							v.note("options", show+" with "+optNames(mask)+" panics: "+got.why, "")
						case renderToks(got.toks) != renderToks(want) && renderToks(got.toks) != renderToks(tkExpect(r.toks, from, dec, 1, mask)):
							v.note("options", fmt.Sprintf("%s with %s gives [%s]; the option-free stream [%s] with whole tokens dropped or rewritten, at their own positions, is [%s]", show, optNames(mask), renderToks(got.toks), renderToks(r.toks), renderToks(want)), "")
						default:
							v.note("options", "", "")
						}
						if got.kind != "ok" || !viaStrings {
							continue
						}
						// the same stream as a list of values: every token of the optioned stream, nothing else
						entry := tkStringEntries[(mi+i)%len(tkStringEntries)]
						vals, k, why := h.stringsVia(entry, s)
						valuesOf := func(ts []tkTok) string {
							vs := []string{}
							for _, t := range ts {
								vs = append(vs, t.val)
							}
							return fmt.Sprintf("%q", vs)
						}
						switch {
						case k == "panic":
							v.note("options", fmt.Sprintf("%s with %s: %s panics: %s", show, optNames(mask), entry, why), "")
						case k != "ok":
							v.note("options", "", fmt.Sprintf("%s with %s: %s: %s", show, optNames(mask), entry, why))
						case fmt.Sprintf("%q", vals) != valuesOf(want) && fmt.Sprintf("%q", vals) != valuesOf(tkExpect(r.toks, from, dec, 1, mask)):
							v.note("options", fmt.Sprintf("%s with %s: %s gives the values %q; the option-free stream [%s] with whole tokens dropped or rewritten has the values %s (TokenizeBuffer under the same options gives %s)", show, optNames(mask), entry, vals, renderToks(r.toks), valuesOf(want), valuesOf(got.toks)), "")
						default:
							v.note("options", "", "")
						}
					}
				}
			}
			// instances configured through the exported API (further symbols, several separators, reconfiguration between inputs)
			if part == "base" {
				for i, hist := range c.tkHistories(kind) {
					if i%nw == w {
						c.tkRunHistory(kind, hist, v)
					}
				}
			}
			// options on instances configured so that a character is routed to a state that does not accept it
			if part == "options" {
				for i, cfg := range tkRejectingConfigs(c) {
					if i%nw == w {
						c.tkRunConfiguredOptions(kind, cfg, masks, v)
					}
				}
			}
			// reuse: every ordered pair of the pool on one instance against the first-use result; has-next interleavings
			if part != "reuse" {
				return
			}
			if why := h.setOptions(0); why != "" {
				v.note("reuse", "", why)
				return
			}
			pool := tkPool
			if w == 0 {
				tkOtherInstances(c, kind, v)
			}
			for i := w; i < len(pool); i += nw {
				s1 := pool[i]
				for _, s2 := range pool {
					want, ok := fresh[s2]
					if !ok {
						// a fresh instance for the reference result
						h2 := c.newTkHarness(kind)
						h2.setOptions(0)
						r2 := h2.tokenize(s2)
						if r2.kind != "ok" {
							continue
						}
						want = renderToks(r2.toks)
						fresh[s2] = want
					}
					noteSample("TOK.reuse/"+kind, fmt.Sprintf("%q then %q", s1, s2))
					if r1 := h.tokenize(s1); r1.kind != "ok" {
						continue
					}
					r2 := h.tokenize(s2)
					switch {
					case r2.kind == "opaque":
						v.note("reuse", "", r2.why)
					case r2.kind == "panic":
						v.note("reuse", fmt.Sprintf("%s tokenizer panics on %q after %q: %s", kind, s2, s1, r2.why), "")
					case renderToks(r2.toks) != want:
						v.note("reuse", fmt.Sprintf("%s tokenizer on %q after %q gives [%s]; a fresh instance gives [%s]", kind, s2, s1, renderToks(r2.toks), want), "")
					default:
						v.note("reuse", "", "")
					}
				}
				// an aborted iteration and has-next queries before each fetch
				if fresh[s1] == "" {
					h2 := c.newTkHarness(kind)
					h2.setOptions(0)
					if r := h2.tokenize(s1); r.kind == "ok" {
						fresh[s1] = renderToks(r.toks)
					}
				}
				for _, polls := range []int{0, 1, 3} {
					got, why := h.pull(s1, polls, 1<<30)
					switch {
					case why != "":
						v.note("reuse", "", why)
					case got != fresh[s1] && fresh[s1] != "":
						v.note("reuse", fmt.Sprintf("%s tokenizer on %q pulled with %d HasNextToken queries before each NextToken gives [%s]; TokenizeBuffer gives [%s]", kind, s1, polls, got, fresh[s1]), "")
					default:
						v.note("reuse", "", "")
					}
				}
				// what was produced for an input is not changed by what the instance processes later: the token
				// list handed out for s1 still has the same tokens after two more inputs were tokenized
				for ei, entry := range []string{"TokenizeBuffer", "TokenizeStream"} {
					raw, r1 := h.tokenizeVia(entry, s1)
					if r1.kind != "ok" || raw == nil {
						continue
					}
					s2, s3 := pool[(i+5+ei)%len(pool)], pool[(i+13+2*ei)%len(pool)]
					h.tokenizeVia(entry, s2)
					h.tokenize(s3)
					again, why := h.readTokens(raw)
					switch {
					case why != "":
						v.note("reuse", "", fmt.Sprintf("%s tokenizer: reading the token list of %q again: %s", kind, s1, why))
					case renderToks(again) != renderToks(r1.toks):
						v.note("reuse", fmt.Sprintf("%s tokenizer: the token list %s returned for %q was [%s]; after the same instance tokenized %q and %q that list reads [%s]: results handed out earlier are overwritten by later calls", kind, entry, s1, renderToks(r1.toks), s2, s3, renderToks(again)), "")
					default:
						v.note("reuse", "", "")
					}
				}
				// a peeked token of an abandoned stream must not leak into the next one
				if _, why := h.pull(s1, 1, 0); why == "" {
					s2 := pool[(i+11)%len(pool)]
					r2 := h.tokenize(s2)
					if r2.kind == "ok" && fresh[s2] != "" && renderToks(r2.toks) != fresh[s2] {
						v.note("reuse", fmt.Sprintf("%s tokenizer on %q after a stream over %q that was only asked HasNextToken gives [%s]; a fresh instance gives [%s]", kind, s2, s1, renderToks(r2.toks), fresh[s2]), "")
					} else {
						v.note("reuse", "", "")
					}
				}
				for k := 2; k <= 8; k++ {
					if _, why := h.pull(s1, k%2, k); why != "" {
						break
					}
					s2 := pool[(i+3*k)%len(pool)]
					r2 := h.tokenize(s2)
					if r2.kind == "ok" && fresh[s2] != "" && renderToks(r2.toks) != fresh[s2] {
						v.note("reuse", fmt.Sprintf("%s tokenizer on %q after an iteration over %q that was abandoned after %d tokens gives [%s]; a fresh instance gives [%s]", kind, s2, s1, k, renderToks(r2.toks), fresh[s2]), "")
					} else {
						v.note("reuse", "", "")
					}
				}
				// one scanner object, rewound and handed to the tokenizer again after k tokens were taken from it
				for _, k := range []int{0, 1, 2, 1 << 30} {
					got, why := h.pullRewound(s1, 1, k)
					switch {
					case why != "":
						v.note("reuse", "", why)
					case got != fresh[s1] && fresh[s1] != "":
						v.note("reuse", fmt.Sprintf("%s tokenizer on %q read again from the same scanner object (rewound with Reset and assigned with SetReader after %d tokens were taken) gives [%s]; a fresh instance gives [%s]", kind, s1, min(k, 99), got, fresh[s1]), "")
					default:
						v.note("reuse", "", "")
					}
				}
				if _, why := h.pull(s1, 1, 1); why == "" {
					s2 := pool[(i+7)%len(pool)]
					r2 := h.tokenize(s2)
					if r2.kind == "ok" && fresh[s2] != "" && renderToks(r2.toks) != fresh[s2] {
						v.note("reuse", fmt.Sprintf("%s tokenizer on %q after an iteration over %q that was abandoned after one token gives [%s]; a fresh instance gives [%s]", kind, s2, s1, renderToks(r2.toks), fresh[s2]), "")
					} else {
						v.note("reuse", "", "")
					}
				}
			}
		}(w)
	}
	wg.Wait()
	for _, p := range parts {
		if p != nil {
			total.merge(p)
		}
	}
	// one very long line: columns far beyond any narrow counter. Each member takes two to five seconds when it
	// runs alone (much longer beside the other workers): the quick tier runs one member on the expression
	// tokenizer, whose positions the syntax errors quote; the thorough tier three members on every tokenizer.
	if part == "base" && (c.Tier == "thorough" || kind == "expression") {
		c.tkRunLongLine(kind, total)
	}
	tkMemo[key] = total
	return total
}

// pull reads the stream through SetReader / HasNextToken / NextToken, asking HasNextToken `polls`
// times before each fetch, for at most max tokens.
func (h *tkHarness) pull(s string, polls, max int) (string, string) {
	h.m.steps = 0
	sc, out := h.m.Call(h.c.MustFunc("io", "", "NewStringScanner"), s)
	if out.kind != "ok" {
		return "", "NewStringScanner: " + out.why
	}
	return h.pullOn(sc, polls, max)
}

// pullRewound: take up to k tokens from a scanner, rewind that same scanner object, assign it again and read everything.
func (h *tkHarness) pullRewound(s string, polls, k int) (string, string) {
	h.m.steps = 0
	sc, out := h.m.Call(h.c.MustFunc("io", "", "NewStringScanner"), s)
	if out.kind != "ok" {
		return "", "NewStringScanner: " + out.why
	}
	if _, why := h.pullOn(sc, polls, k); why != "" {
		return "", why
	}
	scT := h.c.MustFunc("io", "", "NewStringScanner").Signature.Results().At(0).Type()
	if f := h.c.lookupMethod(scT, "Reset"); f != nil {
		if _, out := h.m.Call(f, sc); out.kind != "ok" {
			return "", "Reset: " + out.why
		}
	}
	return h.pullOn(sc, 0, 1<<30)
}

func (h *tkHarness) pullOn(sc mv, polls, max int) (string, string) {
	ts, bad, why := h.pullToks(sc, polls, max)
	if bad != "" {
		return bad, ""
	}
	if why != "" {
		return "", why
	}
	return renderToks(ts), ""
}

// pullToks: the tokens, or a description of a contradiction between HasNextToken and NextToken, or why undecided.
func (h *tkHarness) pullToks(sc mv, polls, max int) ([]tkTok, string, string) {
	scT := h.c.MustFunc("io", "", "NewStringScanner").Signature.Results().At(0).Type()
	if _, out := h.call("SetReader", mIface{t: scT, v: sc}); out.kind != "ok" {
		return nil, "", "SetReader: " + out.why
	}
	var toks []mv
	if max == 0 {
		for p := 0; p < polls; p++ {
			if _, out := h.call("HasNextToken"); out.kind != "ok" {
				return nil, "", "HasNextToken: " + out.why
			}
		}
		return nil, "", ""
	}
	for n := 0; n < max; n++ {
		more := true
		for p := 0; p < polls; p++ {
			r, out := h.call("HasNextToken")
			if out.kind != "ok" {
				return nil, "", "HasNextToken: " + out.why
			}
			b, ok := r.(bool)
			if !ok {
				return nil, "", "HasNextToken is undetermined"
			}
			more = b
		}
		t, out := h.call("NextToken")
		if out.kind != "ok" {
			return nil, "", "NextToken: " + out.why
		}
		if _, isNil := t.(mNilT); isNil {
			break
		}
		if p, ok := t.(*mv); ok && p == nil {
			break
		}
		if !more {
			return nil, "HasNextToken answered false but NextToken returned a token", ""
		}
		toks = append(toks, t)
		if len(toks) > 200 {
			return nil, "", "the pull iteration does not end"
		}
	}
	ts, why := h.readTokens(mSlice{toks})
	if why != "" {
		return nil, "", why
	}
	return ts, "", ""
}

func init() {
	register(&Rule{ID: "TOK.lossless", Floor: 4,
		Doc: "each built-in tokenizer evaluated abstractly (TokenizeBuffer on the machine, all options off) over every string up to a bounded length over the alphabet of state-selecting character classes and a pool of longer strings: the token values concatenate to the input, only the final end-of-input token is empty, and TokenizeBufferToStrings returns exactly those values; also for instances configured through the API (further symbols of 3-5 characters with unregistered prefixes and inputs ending inside them, several CSV separators in one input, separators / quote symbols / symbols changed between inputs)",
		Run: func(c *Ctx) []*Obligation {
			return tkEmit(c, "TOK.lossless", "lossless", "values concatenate to the input")
		}})
	register(&Rule{ID: "TOK.position", Floor: 4,
		Doc: "same runs: every token reports the forward-scan line and column of its first character (LF, CR, CRLF, LFCR each one break), the end-of-input token one column past the last character",
		Run: func(c *Ctx) []*Obligation {
			return tkEmit(c, "TOK.position", "position", "positions equal the forward scan")
		}})
	register(&Rule{ID: "TOK.options", Floor: 4,
		Doc: "for option combinations (quick: each option alone, all, and mixed sets; thorough: all 127) the stream equals the option-free stream with whole tokens dropped or rewritten as the statement lists, each token at the position of the token it came from; decoded values come from a model of the statements (one enclosing pair removed, doubled quotes collapsed for the expression and CSV states), and the string-list entry points give the values of the same rewritten stream",
		Run: func(c *Ctx) []*Obligation {
			return tkEmit(c, "TOK.options", "options", "optioned streams equal the rewritten option-free stream")
		}})
	register(&Rule{ID: "TOK.reuse", Floor: 4,
		Doc: "every ordered pair of a pool (every multi-character symbol, every token class, unterminated literals) on one instance against a fresh instance; pull iteration with 0, 1 and 3 HasNextToken queries per token against TokenizeBuffer; a new input after an iteration abandoned after 0..8 tokens; the same scanner object rewound and assigned again; a token list handed out earlier reads the same after two later inputs",
		Run: func(c *Ctx) []*Obligation {
			return tkEmit(c, "TOK.reuse", "reuse", "results do not depend on history or on has-next queries")
		}})
}

func tkEmit(c *Ctx, rule, check, okText string) []*Obligation {
	o := newObl(rule)
	part := map[string]string{"lossless": "base", "position": "base", "options": "options", "reuse": "reuse"}[check]
	for _, kind := range tkKinds {
		v := c.tkRun(kind, part)
		spec := tokenizerCtors[kind]
		pos := c.Pos(c.MustFunc(spec[0], "", spec[1]).Pos())
		key := fmt.Sprintf("%s.%s#%s", spec[0], strings.TrimPrefix(spec[1], "New"), check)
		switch {
		case v.bad[check] != "":
			o.bad(key, pos, v.bad[check])
		case v.undec[check] != "":
			o.undecided(key, pos, v.undec[check])
		case v.runs[check] == 0:
			o.undecided(key, pos, "no run reached this check")
		default:
			o.ok(key, pos, fmt.Sprintf("%d abstract runs: %s", v.runs[check], okText))
		}
	}
	sort.SliceStable(o.list, func(i, j int) bool { return o.list[i].Construct < o.list[j].Construct })
	return o.list
}

// tkOtherInstances: what one tokenizer produces does not depend on other instances living in the same
// process - their construction, their use, or changes made to their configuration through the API.
func tkOtherInstances(c *Ctx, kind string, v *tkVerdict) {
	m := newMach(c)
	h := c.newTkHarnessOn(m, kind)
	if h.fault != "" {
		v.note("reuse", "", h.fault)
		return
	}
	h.setOptions(0)
	sample := []string{"net-price x-1", "a<=b<>c <- d", "Øre ÿz ж1", "a1 # c\n b", "12.5e3 'q' \"r\"", "{{#a}}x{{/a}} a=b", "a,b;c\r\nd", "q q1 xq"}
	snapshot := func(hh *tkHarness) []string {
		var out []string
		for _, s := range sample {
			r := hh.tokenize(s)
			out = append(out, r.kind+" "+renderToks(r.toks)+r.why)
		}
		return out
	}
	before := snapshot(h)
	for _, other := range append([]string{kind}, tkKinds...) {
		o := c.newTkHarnessOn(m, other)
		if o.fault != "" {
			continue
		}
		o.setOptions(0)
		snapshot(o)
		// reconfigure the other instance through its API
		for _, st := range []struct {
			state, method string
			args          []mv
		}{
			{"WordState", "SetWordChars", []mv{int64('#'), int64('#'), true}},
			{"WordState", "SetWordChars", []mv{int64('a'), int64('c'), false}},
			{"WordState", "SetWordChars", []mv{int64('-'), int64('-'), false}},
			{"WhitespaceState", "SetWhitespaceChars", []mv{int64('x'), int64('x'), true}},
			{"SymbolState", "Add", []mv{"<-", int64(7)}},
			{"SymbolState", "Add", []mv{"a=", int64(7)}},
		} {
			sv, out := o.call(st.state)
			si, ok := sv.(mIface)
			if out.kind != "ok" || !ok {
				continue
			}
			if f := c.lookupMethod(si.t, st.method); f != nil {
				m.Call(f, append([]mv{si.v}, st.args...)...)
			}
		}
		o.call("SetCharacterState", int64('q'), int64('q'), mNil)
		snapshot(o)
		after := snapshot(h)
		for i := range sample {
			if after[i] != before[i] {
				v.note("reuse", fmt.Sprintf("%s tokenizer on %q gives [%s] after another %s tokenizer was created, used and reconfigured in the same process; before it gave [%s]: the instances share state", kind, sample[i], after[i], other, before[i]), "")
				return
			}
		}
		v.note("reuse", "", "")
	}
	// an instance configured with a narrow range inside a wide one (a non-Latin separator): what it does
	// with one input does not depend on the characters it looked up before
	if kind == "generic" || kind == "csv" {
		cfg := func() *tkHarness {
			x := c.newTkHarnessOn(m, kind)
			if x.fault != "" {
				return nil
			}
			x.setOptions(0)
			if kind == "csv" {
				x.call("SetFieldSeparators", mSlice{[]mv{int64('、')}})
			} else if sym, out := x.call("SymbolState"); out.kind == "ok" {
				x.call("SetCharacterState", int64('、'), int64('、'), sym)
			}
			return x
		}
		inputs := []string{"a、b", "漢字", "x", "、", "漢、字", "ж、ж"}
		if fr := cfg(); fr != nil {
			want := map[string]string{}
			for _, s := range inputs {
				f2 := cfg()
				r := f2.tokenize(s)
				want[s] = renderToks(r.toks)
			}
			for _, s1 := range inputs {
				for _, s2 := range inputs {
					fr.tokenize(s1)
					r := fr.tokenize(s2)
					if got := renderToks(r.toks); r.kind == "ok" && got != want[s2] {
						v.note("reuse", fmt.Sprintf("%s tokenizer with the separator '、' configured gives [%s] on %q after %q; a freshly configured instance gives [%s]", kind, got, s2, s1, want[s2]), "")
						return
					}
					v.note("reuse", "", "")
				}
			}
		}
	}
	// an instance created afterwards starts from the same defaults
	h2 := c.newTkHarnessOn(m, kind)
	if h2.fault == "" {
		h2.setOptions(0)
		late := snapshot(h2)
		for i := range sample {
			if late[i] != before[i] {
				v.note("reuse", fmt.Sprintf("a %s tokenizer created after other instances were reconfigured gives [%s] on %q; the first instance gave [%s]: defaults are shared and were changed", kind, late[i], sample[i], before[i]), "")
				return
			}
		}
		v.note("reuse", "", "")
	}
}
