package main

import (
	"fmt"
	"go/token"
	"math"
	"sort"
	"strconv"
	"strings"

	"golang.org/x/tools/go/ssa"
)

// ---------------------------------------------------------------------------------------------
// FUNC — default function table (C08)
// ---------------------------------------------------------------------------------------------

const pkgFunctions = "calculator/functions"

func unaryMath(host string) string {
	return "VariantFromDouble(math." + host + "(AsDouble(Convert(getParameter($1, 0), Double))))"
}

// funcChainOracle: name → normalised success result. Written from the statement ("the value its name denotes…
// per IEEE double arithmetic on the converted argument") and confirmed by reading.
var funcChainOracle = map[string]string{
	"Acos": unaryMath("Acos"), "Asin": unaryMath("Asin"), "Atan": unaryMath("Atan"),
	"Cos": unaryMath("Cos"), "Sin": unaryMath("Sin"), "Tan": unaryMath("Tan"),
	"Exp": unaryMath("Exp"), "Sqrt": unaryMath("Sqrt"), "Sqr": unaryMath("Sqrt"),
	"Log": unaryMath("Log"), "Ln": unaryMath("Log"), "Log10": unaryMath("Log10"),
	"Ceil": unaryMath("Ceil"), "Ceiling": unaryMath("Ceil"), "Floor": unaryMath("Floor"), "Round": unaryMath("Round"),
	"Trunc":     "VariantFromLong(conv<int64>(math.Trunc(AsDouble(Convert(getParameter($1, 0), Double)))))",
	"Truncate":  "VariantFromLong(conv<int64>(math.Trunc(AsDouble(Convert(getParameter($1, 0), Double)))))",
	"Rnd":       "VariantFromFloat(rand.Float32())",
	"Random":    "VariantFromFloat(rand.Float32())",
	"Ticks":     "VariantFromLong(time.Time.Unix(time.Now()))",
	"Now":       "VariantFromDateTime(time.Now())",
	"Empty":     "VariantFromBoolean(IsEmpty(getParameter($1, 0)))",
	"Null":      "EmptyVariant()",
	"Array":     "VariantFromArray($1)",
	"DayOfWeek": "VariantFromInteger(conv<int>(time.Time.Weekday(AsDateTime(Convert(getParameter($1, 0), DateTime)))))",
	"E":         "const:E",
	"Pi":        "const:Pi",
}

// accepted argument counts per function (9 stands for "9 or more")
var funcArityOracle = map[string][]int{
	"Ticks": {0}, "Now": {0}, "E": {0}, "Pi": {0}, "Rnd": {0}, "Random": {0}, "Null": {0},
	"TimeSpan": {1, 3, 4, 5}, "Date": {1, 2, 3, 4, 5, 6, 7}, "DayOfWeek": {1},
	"Min": {2, 3, 4, 5, 6, 7, 8, 9}, "Max": {2, 3, 4, 5, 6, 7, 8, 9}, "Sum": {2, 3, 4, 5, 6, 7, 8, 9},
	"If": {3}, "Choose": {3, 4, 5, 6, 7, 8, 9},
	"Abs": {1}, "Acos": {1}, "Asin": {1}, "Atan": {1}, "Exp": {1}, "Log": {1}, "Ln": {1}, "Log10": {1},
	"Ceil": {1}, "Ceiling": {1}, "Floor": {1}, "Round": {1}, "Trunc": {1}, "Truncate": {1},
	"Cos": {1}, "Sin": {1}, "Tan": {1}, "Sqr": {1}, "Sqrt": {1}, "Empty": {1}, "Contains": {2},
	"Array": {0, 1, 2, 3, 4, 5, 6, 7, 8, 9},
}

func init() {
	register(&Rule{ID: "FUNC.table", Floor: 37,
		Doc: "the registration table: every name of the statement is registered exactly once with a calculator, and no registered name is unknown",
		Run: ruleFuncTable})
	register(&Rule{ID: "FUNC.chain", Floor: 28,
		Doc: "for functions whose meaning is a host function or constant, the registered calculator's success result is exactly that host function applied to the converted first argument (resolved through the registration call: renaming a calculator is harmless, swapping two registrations is not)",
		Run: ruleFuncChain})
	register(&Rule{ID: "FUNC.arity", Floor: 37,
		Doc: "abstract interpretation of every registered calculator over the argument count n ∈ {0..8, 9+}: the accepted counts are exactly those of the statement, every other count ends in an error return, and parameter k is read only where n > k",
		Run: ruleFuncArity})
	register(&Rule{ID: "FUNC.fold", Floor: 7,
		Doc: "Min/Max/Sum visit every argument in order starting from the first (Min keeps the smaller via More, Max the larger via Less, Sum folds Add left to right); If selects the 2nd argument when the condition holds, the 3rd otherwise; Choose returns the argument at the converted index with both bounds checked; Contains is strings.Contains on the converted strings",
		Run: ruleFuncFold})
}

func ruleFuncTable(c *Ctx) []*Obligation {
	o := newObl("FUNC.table")
	regs := c.registrations()
	seen := map[string]int{}
	for _, r := range regs {
		seen[r.name]++
	}
	var names []string
	for n := range funcArityOracle {
		names = append(names, n)
	}
	sort.Strings(names)
	ctor := c.MustFunc(pkgFunctions, "", "NewDefaultFunctionCollection")
	for _, n := range names {
		key := "functions.NewDefaultFunctionCollection#registers#" + n
		switch seen[n] {
		case 1:
			o.triv(key, c.Pos(ctor.Pos()), "registered once")
		case 0:
			o.bad(key, c.Pos(ctor.Pos()), "default function "+n+" is no longer registered")
		default:
			o.bad(key, c.Pos(ctor.Pos()), fmt.Sprintf("default function %s is registered %d times: the first registration shadows the others", n, seen[n]))
		}
	}
	for _, r := range regs {
		if _, ok := funcArityOracle[r.name]; !ok {
			o.bad("functions.NewDefaultFunctionCollection#registers#"+r.name, c.Pos(r.call.Pos()), "a function named "+r.name+" is registered but is not one of the default functions of the statement")
		}
		// every registration is added to the collection
		added := false
		for _, ref := range *r.call.Referrers() {
			if mi, ok := ref.(*ssa.MakeInterface); ok {
				for _, r2 := range *mi.Referrers() {
					if ci, ok := r2.(ssa.CallInstruction); ok {
						if f := calleeObj(ci.Common()); f != nil && f.Name() == "Add" {
							added = true
						}
					}
				}
			}
			if ci, ok := ref.(ssa.CallInstruction); ok {
				if f := calleeObj(ci.Common()); f != nil && f.Name() == "Add" {
					added = true
				}
			}
		}
		if !added {
			o.bad("functions.NewDefaultFunctionCollection#added#"+r.name, c.Pos(r.call.Pos()), "the function object for "+r.name+" is constructed but never added to the collection")
		}
	}
	return o.list
}

// successResults renders the value operand of every success return of fn.
func (c *Ctx) successResults(fn *ssa.Function) []string {
	ex := c.newExpr(fn)
	var out []string
	for _, ret := range returnsOf(fn) {
		if len(ret.Results) != 2 || !isNilConst(ret.Results[1]) {
			continue
		}
		out = append(out, ex.str(ret.Results[0]))
	}
	sort.Strings(out)
	return out
}

func ruleFuncChain(c *Ctx) []*Obligation {
	o := newObl("FUNC.chain")
	for _, r := range c.registrations() {
		want, ok := funcChainOracle[r.name]
		if !ok {
			continue
		}
		key := "functions#" + r.name + "#result"
		got := c.successResults(r.fn)
		pos := c.Pos(r.fn.Pos())
		if len(got) != 1 {
			o.bad(key, pos, fmt.Sprintf("%s (registered for %q) has %d success returns %v, expected one", r.fn.Name(), r.name, len(got), got))
			continue
		}
		if strings.HasPrefix(want, "const:") {
			var target float64
			if want == "const:E" {
				target = math.E
			} else {
				target = math.Pi
			}
			okConst := false
			if strings.HasPrefix(got[0], "VariantFromFloat(") || strings.HasPrefix(got[0], "VariantFromDouble(") {
				num := got[0][strings.Index(got[0], "(")+1 : len(got[0])-1]
				if v, err := parseRational(num); err == nil && math.Abs(v-target) < 1e-6 {
					okConst = true
				}
			}
			o.check(okConst, key, pos, r.name+" returns the constant "+want[6:], fmt.Sprintf("%q must return the constant %s but returns %s", r.name, want[6:], got[0]))
			continue
		}
		if got[0] == want {
			o.ok(key, pos, fmt.Sprintf("%q → %s", r.name, got[0]))
		} else {
			o.bad(key, pos, fmt.Sprintf("%q is registered with %s, whose result is %s; the name denotes %s", r.name, r.fn.Name(), got[0], want))
		}
	}
	return o.list
}

func parseRational(s string) (float64, error) {
	if i := strings.IndexByte(s, '/'); i > 0 {
		a, err := strconv.ParseFloat(s[:i], 64)
		if err != nil {
			return 0, err
		}
		b, err := strconv.ParseFloat(s[i+1:], 64)
		if err != nil {
			return 0, err
		}
		return a / b, nil
	}
	return strconv.ParseFloat(s, 64)
}

// ---- arity abstract interpretation -------------------------------------------------------------------------

// evalArityCond evaluates a branch condition that depends only on n = len(parameters).
func (c *Ctx) evalArityCond(fn *ssa.Function, cond ssa.Value, n int) (val, known bool) {
	params := fn.Params[0]
	g := guard{Cond: cond, Truth: true}
	v, pos := g.atom()
	bo, ok := v.(*ssa.BinOp)
	if !ok {
		return false, false
	}
	x, y, op := bo.X, bo.Y, bo.Op
	if _, isC := x.(*ssa.Const); isC {
		x, y = y, x
		if m, ok := mirrored[op]; ok {
			op = m
		}
	}
	res := false
	switch {
	case isLenOfParam(x, params):
		k, isK := constInt(y)
		if !isK {
			return false, false
		}
		nn := int64(n)
		// n == 9 stands for "9 or more": comparisons with constants <= 8 behave like 9
		switch op {
		case token.EQL:
			res = nn == k
		case token.NEQ:
			res = nn != k
		case token.LSS:
			res = nn < k
		case token.LEQ:
			res = nn <= k
		case token.GTR:
			res = nn > k
		case token.GEQ:
			res = nn >= k
		default:
			return false, false
		}
	case isNilConst(y):
		call, isCall := x.(*ssa.Call)
		if !isCall {
			return false, false
		}
		cc, isCheck := c.callTo(call, pkgFunctions, "", "checkParamCount")
		if !isCheck || cc.Args[0] != ssa.Value(params) {
			return false, false
		}
		k, isK := constInt(cc.Args[1])
		if !isK {
			return false, false
		}
		nonNil := int64(n) != k
		if op == token.NEQ {
			res = nonNil
		} else if op == token.EQL {
			res = !nonNil
		} else {
			return false, false
		}
	default:
		return false, false
	}
	if !pos {
		res = !res
	}
	return res, true
}

func isLenOfParam(v ssa.Value, p *ssa.Parameter) bool {
	call, ok := stripConv(v).(*ssa.Call)
	if !ok {
		return false
	}
	bi, ok := call.Call.Value.(*ssa.Builtin)
	return ok && bi.Name() == "len" && call.Call.Args[0] == ssa.Value(p)
}

// reachableForN: blocks reachable from entry when len(parameters) == n.
func (c *Ctx) reachableForN(fn *ssa.Function, n int) map[*ssa.BasicBlock]bool {
	seen := map[*ssa.BasicBlock]bool{}
	var walk func(b *ssa.BasicBlock)
	walk = func(b *ssa.BasicBlock) {
		if seen[b] {
			return
		}
		seen[b] = true
		if ifi, ok := b.Instrs[len(b.Instrs)-1].(*ssa.If); ok {
			if v, known := c.evalArityCond(fn, ifi.Cond, n); known {
				if v {
					walk(b.Succs[0])
				} else {
					walk(b.Succs[1])
				}
				return
			}
		}
		for _, s := range b.Succs {
			walk(s)
		}
	}
	walk(fn.Blocks[0])
	return seen
}

func isCalculator(fn *ssa.Function) bool {
	return fn.Signature.Recv() == nil && len(fn.Params) == 2 && strings.HasPrefix(fn.Params[0].Type().String(), "[]*")
}

func (c *Ctx) funcArityReaches(fn *ssa.Function, at ssa.CallInstruction, k int64) (bool, string) {
	if !isCalculator(fn) {
		return false, "not a calculator"
	}
	for n := 0; n <= 9; n++ {
		if int64(n) > k {
			break
		}
		if c.reachableForN(fn, n)[at.Block()] {
			return false, fmt.Sprintf("reachable with %d argument(s)", n)
		}
	}
	return true, "unreachable for every argument count <= index"
}

func ruleFuncArity(c *Ctx) []*Obligation {
	o := newObl("FUNC.arity")
	for _, r := range c.registrations() {
		key := "functions#" + r.name + "#arity"
		pos := c.Pos(r.fn.Pos())
		want, ok := funcArityOracle[r.name]
		if !ok {
			continue
		}
		wantSet := map[int]bool{}
		for _, n := range want {
			wantSet[n] = true
		}
		var bad []string
		var accepted []string
		for n := 0; n <= 9; n++ {
			reach := c.reachableForN(r.fn, n)
			success := false
			for _, ret := range returnsOf(r.fn) {
				if !reach[ret.Block()] {
					continue
				}
				isErr := isNilConst(ret.Results[0]) && !isNilConst(ret.Results[1])
				if !isErr {
					success = true
				}
			}
			label := strconv.Itoa(n)
			if n == 9 {
				label = "9+"
			}
			if success {
				accepted = append(accepted, label)
			}
			if success && !wantSet[n] {
				bad = append(bad, fmt.Sprintf("with %s argument(s) a non-error return is reachable, but %s does not accept that count", label, r.name))
			}
			if !success && wantSet[n] {
				bad = append(bad, fmt.Sprintf("%s argument(s) is a valid call of %s but every path ends in an error", label, r.name))
			}
			// parameter reads
			for _, ci := range allCalls(r.fn) {
				if !reach[ci.Block()] {
					continue
				}
				if cc, ok := c.callTo(ci, pkgFunctions, "", "getParameter"); ok && cc.Args[0] == ssa.Value(r.fn.Params[0]) {
					if k, isK := constInt(cc.Args[1]); isK && int64(n) <= k && n < 9 {
						bad = append(bad, fmt.Sprintf("parameter %d is read on a path reachable with only %s argument(s)", k, label))
					}
				}
			}
			// error returns carry a constant non-empty code (checked by GRAM.errcode module-wide)
		}
		if len(bad) > 0 {
			sort.Strings(bad)
			o.bad(key, pos, strings.Join(uniq(bad), "; "))
		} else {
			o.ok(key, pos, fmt.Sprintf("%q (%s) accepts exactly {%s} arguments; every other count ends in an error return", r.name, r.fn.Name(), strings.Join(accepted, ",")))
		}
	}
	return o.list
}

func uniq(in []string) []string {
	var out []string
	for i, s := range in {
		if i == 0 || s != in[i-1] {
			out = append(out, s)
		}
	}
	return out
}

// ---- folds and selections ---------------------------------------------------------------------------------

func (c *Ctx) regByName(name string) *registration {
	for _, r := range c.registrations() {
		if r.name == name {
			rr := r
			return &rr
		}
	}
	return nil
}

func ruleFuncFold(c *Ctx) []*Obligation {
	o := newObl("FUNC.fold")
	// Min / Max / Sum
	for _, spec := range []struct{ name, op string }{{"Min", "More"}, {"Max", "Less"}, {"Sum", "Add"}} {
		key := "functions#" + spec.name + "#fold"
		r := c.regByName(spec.name)
		if r == nil {
			continue // FUNC.table reports it
		}
		ex := c.newExpr(r.fn)
		var inv *ssa.Call
		for _, ci := range allCalls(r.fn) {
			if ci.Common().IsInvoke() {
				inv = ci.(*ssa.Call)
			}
		}
		if inv == nil {
			o.bad(key, c.Pos(r.fn.Pos()), spec.name+" does not use a variant operation")
			continue
		}
		var bad []string
		if inv.Call.Method.Name() != spec.op {
			bad = append(bad, fmt.Sprintf("folds with %s, expected %s", inv.Call.Method.Name(), spec.op))
		}
		acc, elem := inv.Call.Args[0], inv.Call.Args[1]
		accPhi, isPhi := acc.(*ssa.Phi)
		params := ssa.Value(r.fn.Params[0])
		bp := &boundsProver{c: c, fn: r.fn, ex: ex}
		d := bp.newDBM(inv)
		// element of the argument list as (loop variable, constant): parameters[var + k]
		elemIndex := func(v ssa.Value) (ssa.Value, int64, bool) {
			var idx ssa.Value
			off := int64(0)
			switch x := v.(type) {
			case *ssa.Call:
				cc, ok := c.callTo(x, pkgFunctions, "", "getParameter")
				if !ok || cc.Args[0] != params {
					return nil, 0, false
				}
				idx = cc.Args[1]
			case *ssa.UnOp:
				ia, ok := x.X.(*ssa.IndexAddr)
				if !ok || x.Op != token.MUL {
					return nil, 0, false
				}
				idx = ia.Index
				switch b := ia.X.(type) {
				case *ssa.Parameter:
					if ssa.Value(b) != params {
						return nil, 0, false
					}
				case *ssa.Slice:
					if b.X != params || b.High != nil {
						return nil, 0, false
					}
					if b.Low != nil {
						k, isK := constInt(b.Low)
						if !isK {
							return nil, 0, false
						}
						off = k
					}
				default:
					return nil, 0, false
				}
			default:
				return nil, 0, false
			}
			as, k := d.flatten(idx, 4)
			switch len(as) {
			case 0:
				return nil, k + off, true
			case 1:
				if as[0].v != nil {
					return as[0].v, k + off, true
				}
			}
			return nil, 0, false
		}
		if !isPhi {
			bad = append(bad, "the accumulator is not carried across iterations")
		} else {
			okInit := false
			init := ""
			for i, e := range accPhi.Edges {
				if !accPhi.Block().Dominates(accPhi.Block().Preds[i]) {
					init = ex.str(e)
					if v, k, ok := elemIndex(e); ok && v == nil && k == 0 {
						okInit = true
					}
				}
			}
			if !okInit {
				bad = append(bad, "the accumulator does not start with the first argument (starts with "+init+")")
			}
		}
		// element: parameters[var + k], var a counter; first visited index 1, step 1, loop runs while the index is < len(parameters)
		es := ex.str(elem)
		if lv, ke, ok := elemIndex(elem); ok && lv != nil {
			iphi, isLoopVar := lv.(*ssa.Phi)
			if !isLoopVar {
				bad = append(bad, "the folded element "+es+" is not indexed by a loop counter")
			} else {
				init, step, okStep := phiStep(iphi)
				if !okStep || step != 1 {
					bad = append(bad, "the loop index is not incremented by one")
				} else if k0, isK := constInt(init); !isK || k0+ke != 1 {
					bad = append(bad, "the loop over the remaining arguments does not start at index 1")
				}
				// loop guard: (var + kx) < (len(parameters) + ky)  with  kx - ky == ke
				bounded := false
				for _, g := range guardsAt(inv.Block()) {
					cond, truth := g.atom()
					bo, ok := cond.(*ssa.BinOp)
					if !ok || !truth || bo.Op != token.LSS {
						continue
					}
					xa, kx := d.flatten(bo.X, 4)
					ya, ky := d.flatten(bo.Y, 4)
					if len(xa) == 1 && xa[0].v == lv && len(ya) == 1 && ya[0].lenOf == params && kx-ky == ke {
						bounded = true
					}
				}
				if !bounded {
					bad = append(bad, "the loop does not run while the argument index is < len(parameters)")
				}
			}
		} else {
			bad = append(bad, "the folded element is "+es)
		}
		// Min/Max: the winner replaces the accumulator only when the comparison is true
		if spec.op != "Add" && isPhi {
			// every value the accumulator takes on a back edge is the accumulator itself (keep) or the
			// element (replace), and the element arrives only along edges where AsBoolean(comparison) held
			keep, repl, other, unguarded := 0, 0, 0, 0
			var visit func(v ssa.Value, gs []guard, depth int)
			visit = func(v ssa.Value, gs []guard, depth int) {
				switch {
				case v == acc:
					keep++
				case v == elem:
					repl++
					okG := false
					for _, g := range gs {
						cond, truth := g.atom()
						if call, ok := cond.(*ssa.Call); ok && truth {
							if _, isB := c.callTo(call, pkgVariants, "Variant", "AsBoolean"); isB {
								okG = true
							}
						}
					}
					if !okG {
						unguarded++
					}
				default:
					if sel, ok := v.(*ssa.Phi); ok && depth > 0 && sel != accPhi {
						for j, se := range sel.Edges {
							visit(se, guardsOnEdge(sel.Block().Preds[j], sel.Block()), depth-1)
						}
						return
					}
					other++
				}
			}
			for i, e := range accPhi.Edges {
				if accPhi.Block().Dominates(accPhi.Block().Preds[i]) {
					visit(e, guardsOnEdge(accPhi.Block().Preds[i], accPhi.Block()), 3)
				}
			}
			if !(keep > 0 && repl > 0 && other == 0 && unguarded == 0) {
				bad = append(bad, "the argument does not replace the running result exactly when the comparison holds")
			}
		}
		if spec.op == "Add" && isPhi {
			backOK := false
			for i, e := range accPhi.Edges {
				if accPhi.Block().Dominates(accPhi.Block().Preds[i]) {
					if ext, ok := e.(*ssa.Extract); ok && ext.Tuple == ssa.Value(inv) && ext.Index == 0 {
						backOK = true
					}
				}
			}
			if !backOK {
				bad = append(bad, "the running sum is not replaced by Add(sum, argument)")
			}
		}
		if len(bad) > 0 {
			o.bad(key, c.Pos(inv.Pos()), strings.Join(bad, "; "))
		} else {
			o.ok(key, c.Pos(inv.Pos()), fmt.Sprintf("%s folds %s(acc, parameters[i]) for i = 1..n-1 starting from parameters[0]", spec.name, spec.op))
		}
	}
	// If
	if r := c.regByName("If"); r != nil {
		key := "functions#If#select"
		ex := c.newExpr(r.fn)
		got := c.successResults(r.fn)
		// result = phi[param2 (else), param1 (then)] under AsBoolean(Convert(param0, Boolean))
		good := false
		why := fmt.Sprintf("result is %v", got)
		for _, ret := range returnsOf(r.fn) {
			if !isNilConst(ret.Results[1]) {
				continue
			}
			phi, ok := ret.Results[0].(*ssa.Phi)
			if !ok {
				continue
			}
			for i, e := range phi.Edges {
				pb := phi.Block().Preds[i]
				s := ex.str(e)
				for _, g := range guardsOnEdge(pb, phi.Block()) {
					cond, truth := g.atom()
					if ex.str(cond) == "AsBoolean(Convert(getParameter($1, 0), Boolean))" {
						if truth && s == "getParameter($1, 1)" {
							good = true
						}
						if truth && s != "getParameter($1, 1)" {
							why = "when the condition holds If returns " + s + " instead of the second argument"
							good = false
						}
					}
				}
				if s == "getParameter($1, 2)" {
					// the default (else) value
				}
			}
			leaves := map[string]bool{}
			for _, e := range phi.Edges {
				leaves[ex.str(e)] = true
			}
			if !leaves["getParameter($1, 1)"] || !leaves["getParameter($1, 2)"] {
				good = false
				why = "If must choose between its second and third argument"
			}
		}
		o.check(good, key, c.Pos(r.fn.Pos()), "condition true → 2nd argument, otherwise 3rd", why)
	}
	// Choose
	if r := c.regByName("Choose"); r != nil {
		key := "functions#Choose#bounds"
		ex := c.newExpr(r.fn)
		good, why := false, "no indexed parameter read found"
		for _, ci := range allCalls(r.fn) {
			cc, ok := c.callTo(ci, pkgFunctions, "", "getParameter")
			if !ok {
				continue
			}
			if _, isK := constInt(cc.Args[1]); isK {
				continue
			}
			idx := cc.Args[1]
			if s := ex.str(idx); s != "AsInteger(Convert(getParameter($1, 0), Integer))" {
				why = "the selected index is " + s
				continue
			}
			p := &boundsProver{c: c, fn: r.fn, ex: ex}
			lo, _ := p.nonNegative(idx, ci, 4)
			hi := false
			for _, g := range guardsAt(ci.Block()) {
				cond, truth := g.atom()
				if bo, ok := cond.(*ssa.BinOp); ok {
					op := bo.Op
					if !truth {
						op = negateOp(op)
					}
					// paramCount >= idx+1  (negation of paramCount < idx+1)
					if isLenOfParam(bo.X, r.fn.Params[0]) && (op == token.GEQ || op == token.GTR) {
						if op == token.GTR && c.sameValue(bo.Y, idx) {
							hi = true
						}
						if add, ok := bo.Y.(*ssa.BinOp); ok && add.Op == token.ADD && c.sameValue(add.X, idx) {
							if k, isK := constInt(add.Y); isK && k == 1 && op == token.GEQ {
								hi = true
							}
						}
					}
					if c.sameValue(bo.X, idx) && op == token.LSS && isLenOfParam(bo.Y, r.fn.Params[0]) {
						hi = true
					}
				}
			}
			switch {
			case lo && hi:
				good, why = true, "index = AsInteger(Convert(parameters[0], Integer)) with 0 <= index < len(parameters) checked"
			case !lo:
				why = "the selected index can be negative (no lower-bound test): Choose(-1, …) panics"
			default:
				why = "the selected index is not checked against the argument count"
			}
		}
		o.check(good, key, c.Pos(r.fn.Pos()), why, why)
	}
	// Contains
	if r := c.regByName("Contains"); r != nil {
		key := "functions#Contains#result"
		got := c.successResults(r.fn)
		want := "VariantFromBoolean(strings.Contains(AsString(Convert(getParameter($1, 0), String)), AsString(Convert(getParameter($1, 1), String))))"
		found := false
		for _, g := range got {
			if g == want {
				found = true
			}
		}
		o.check(found, key, c.Pos(r.fn.Pos()), "strings.Contains(string(arg0), string(arg1))", fmt.Sprintf("Contains must return strings.Contains on its two converted arguments in order; success results are %v", got))
	}
	// Abs: type-preserving for numeric arguments
	if r := c.regByName("Abs"); r != nil {
		key := "functions#Abs#type-preserving"
		ex := c.newExpr(r.fn)
		cells := map[string]string{}
		// the value whose type is dispatched on, and for every block the types it can still have
		var tested ssa.Value
		for _, b := range r.fn.Blocks {
			if ifi, ok := b.Instrs[len(b.Instrs)-1].(*ssa.If); ok {
				if recv, _, _, ok := c.typeTestConst(ifi.Cond, pkgVariants, "Variant"); ok && tested == nil {
					tested = recv
				}
			}
		}
		names := c.variantTypeNames()
		if tested != nil {
			sets := c.typeSets(r.fn, tested, pkgVariants, "Variant", names)
			returned := map[ssa.Value]bool{}
			for _, ret := range returnsOf(r.fn) {
				for _, l := range phiLeaves(ret.Results[0]) {
					returned[l] = true
				}
			}
			for _, b := range r.fn.Blocks {
				for _, in := range b.Instrs {
					call, ok := in.(*ssa.Call)
					if !ok {
						continue
					}
					f := calleeObj(call.Common())
					if f == nil {
						continue
					}
					cell := ""
					switch {
					case strings.HasPrefix(f.Name(), "SetAs") && recvNamed(f) == "Variant":
						cell = f.Name() + "(" + ex.str(callArgs(call.Common())[0]) + ")"
					case strings.HasPrefix(f.Name(), "VariantFrom") && c.relPkg(f.Pkg()) == pkgVariants && returned[call] && len(call.Call.Args) == 1:
						cell = "SetAs" + strings.TrimPrefix(f.Name(), "VariantFrom") + "(" + ex.str(call.Call.Args[0]) + ")"
					}
					if cell == "" {
						continue
					}
					set := sets[b] &^ (1 << 63)
					for k, tn := range names {
						// the cell of type T is the one that is reached for T (the fallback cell serves every type not singled out before)
						if set&(1<<uint(k)) != 0 {
							if _, has := cells[tn]; !has || set == 1<<uint(k) {
								cells[tn] = cell
							}
						}
					}
				}
			}
		}
		want := map[string]string{
			"Integer": "SetAsInteger(conv<int>(math.Abs(conv<float64>(AsInteger(getParameter($1, 0))))))",
			"Long":    "SetAsLong(conv<int64>(math.Abs(conv<float64>(AsLong(getParameter($1, 0))))))",
			"Float":   "SetAsFloat(conv<float32>(math.Abs(conv<float64>(AsFloat(getParameter($1, 0))))))",
			"Double":  "SetAsDouble(math.Abs(AsDouble(getParameter($1, 0))))",
		}
		if cells["Double"] == "SetAsDouble(math.Abs(AsDouble(Convert(getParameter($1, 0), Double))))" {
			// a Double argument may also be served by the convert-to-Double fallback: Convert is the identity for it (CONV.identity)
			want["Double"] = cells["Double"]
		}
		var bad []string
		for t, w := range want {
			if cells[t] != w {
				bad = append(bad, fmt.Sprintf("Abs for %s is %q, expected %q", t, cells[t], w))
			}
		}
		sort.Strings(bad)
		o.check(len(bad) == 0, key, c.Pos(r.fn.Pos()), "Integer/Long/Float/Double keep their type through math.Abs", strings.Join(bad, "; "))
	}
	return o.list
}
