package main

import (
	"fmt"
	"go/constant"
	"go/token"
	"go/types"
	"os"
	"sort"
	"strings"

	"golang.org/x/tools/go/ssa"
)

// ---------------------------------------------------------------------------------------------
// PANIC — region reachable from the untrusted-input entry points, explicit panics, recover wrapper,
// result tuples, nil results, interface comparisons, main-loop progress.
// ---------------------------------------------------------------------------------------------

type entrySpec struct{ pkg, recv, name string }

var untrustedEntries = []entrySpec{
	{pkgCalc, "ExpressionCalculator", "SetExpression"}, {pkgCalc, "ExpressionCalculator", "SetOriginalTokens"},
	{pkgCalc, "ExpressionCalculator", "Evaluate"}, {pkgCalc, "ExpressionCalculator", "EvaluateUsingVariables"},
	{pkgCalc, "ExpressionCalculator", "EvaluateUsingVariablesAndFunctions"},
	{pkgParsers, "ExpressionParser", "ParseString"}, {pkgParsers, "ExpressionParser", "ParseTokens"},
	{"mustache", "MustacheTemplate", "SetTemplate"}, {"mustache", "MustacheTemplate", "SetOriginalTokens"},
	{"mustache", "MustacheTemplate", "Evaluate"}, {"mustache", "MustacheTemplate", "EvaluateWithVariables"},
	{"mustache/parsers", "MustacheParser", "ParseString"}, {"mustache/parsers", "MustacheParser", "ParseTokens"},
	{"tokenizers", "AbstractTokenizer", "TokenizeBuffer"}, {"tokenizers", "AbstractTokenizer", "TokenizeStream"},
	{"tokenizers", "AbstractTokenizer", "TokenizeBufferToStrings"}, {"tokenizers", "AbstractTokenizer", "TokenizeStreamToStrings"},
	{"tokenizers", "AbstractTokenizer", "HasNextToken"}, {"tokenizers", "AbstractTokenizer", "NextToken"},
	{"tokenizers/generic", "", "NewGenericTokenizer"}, {"calculator/tokenizers", "", "NewExpressionTokenizer"},
	{"csv", "", "NewCsvTokenizer"}, {"mustache/tokenizers", "", "NewMustacheTokenizer"},
	{pkgCalc, "", "NewExpressionCalculator"}, {"mustache", "", "NewMustacheTemplate"},
	{"calculator/functions", "DelegatedFunction", "Calculate"},
}

var regionMemo map[*ssa.Function]bool
var regionEntries []*ssa.Function

// untrustedRegion: module functions reachable from the entry points (plus every quote-state codec,
// every operator method of both managers and every registered default function).
func (c *Ctx) untrustedRegion() map[*ssa.Function]bool {
	if regionMemo != nil {
		return regionMemo
	}
	var roots []*ssa.Function
	for _, e := range untrustedEntries {
		roots = append(roots, c.MustFunc(e.pkg, e.recv, e.name))
	}
	for _, nt := range c.implsOf("tokenizers", "IQuoteState") {
		for _, m := range []string{"EncodeString", "DecodeString", "NextToken"} {
			if f := c.methodOf(nt, m, false); f != nil {
				roots = append(roots, f)
			}
		}
	}
	for _, nt := range c.implsOf("tokenizers", "ITokenizerState") {
		if f := c.methodOf(nt, "NextToken", false); f != nil {
			roots = append(roots, f)
		}
	}
	for _, nt := range c.implsOf(pkgVariants, "IVariantOperations") {
		ms := c.Prog.MethodSets.MethodSet(types.NewPointer(nt))
		for i := 0; i < ms.Len(); i++ {
			if f := c.Prog.MethodValue(ms.At(i)); f != nil && c.InModule(f) {
				roots = append(roots, f)
			}
		}
	}
	for _, r := range c.registrations() {
		roots = append(roots, r.fn)
	}
	// Variant's own API is an observation point of C20
	for _, f := range c.methodsOfType(pkgVariants, "Variant") {
		if f.Name() == "Equals" || f.Name() == "Clone" {
			roots = append(roots, f)
		}
	}
	regionEntries = roots
	cg := c.CallGraph()
	seen := map[*ssa.Function]bool{}
	var walk func(f *ssa.Function)
	walk = func(f *ssa.Function) {
		if f == nil || seen[f] || !c.InModule(f) {
			return
		}
		seen[f] = true
		for _, a := range f.AnonFuncs {
			walk(a)
		}
		if n := cg.Nodes[f]; n != nil {
			for _, e := range n.Out {
				walk(e.Callee.Func)
			}
		}
	}
	for _, r := range roots {
		walk(r)
	}
	regionMemo = seen
	return seen
}

type registration struct {
	name string
	fn   *ssa.Function
	call *ssa.Call
}

var registrationsMemo []registration

// registrations: the NewDelegatedFunction(name, calculator) calls of NewDefaultFunctionCollection.
func (c *Ctx) registrations() []registration {
	if registrationsMemo != nil {
		return registrationsMemo
	}
	ctor := c.MustFunc("calculator/functions", "", "NewDefaultFunctionCollection")
	var out []registration
	for _, ci := range allCalls(ctor) {
		cc, ok := c.callTo(ci, "calculator/functions", "", "NewDelegatedFunction")
		if !ok {
			continue
		}
		name, _ := constString(cc.Args[0])
		var fn *ssa.Function
		switch v := stripConv(cc.Args[1]).(type) {
		case *ssa.Function:
			fn = v
		case *ssa.MakeClosure:
			fn, _ = v.Fn.(*ssa.Function)
		}
		if fn == nil {
			continue
		}
		out = append(out, registration{name, fn, ci.(*ssa.Call)})
	}
	registrationsMemo = out
	return out
}

func init() {
	register(&Rule{ID: "PANIC.recover", Floor: 1,
		Doc: "a deferred recover() handler that turns a panic into an error must assign a NAMED result of the enclosing function: after a panic the function returns its result slots, so an assignment to any other variable is lost and the call yields (nil, nil)",
		Run: rulePanicRecover})
	register(&Rule{ID: "PANIC.result", Floor: 100,
		Doc: "every return of a (value, error) function yields exactly one of a non-nil value or a non-nil error: no (nil, nil), no nil value under a nil error, no error tested with the wrong polarity",
		Run: rulePanicResult})
	register(&Rule{ID: "PANIC.explicit", Floor: 20,
		Doc: "explicit panic sites: unreachable from the untrusted-input entry points, or guarded by a condition that every in-region call site provably falsifies (constants, dominating guards, verified structural invariants)",
		Run: rulePanicExplicit})
	register(&Rule{ID: "PANIC.ifacecmp", Floor: 1,
		Doc: "comparing two interface values panics when their dynamic type is not comparable: the payload of a Variant can be a slice, so payloads may be compared with ==/!= only where the tag excludes Array",
		Run: rulePanicIfaceCmp})
	register(&Rule{ID: "PANIC.progress", Floor: 1,
		Doc: "main tokenizer loop: no token value carried over from a previous iteration is used (a skipped token must not be re-tested when the next character has no state), and every way around the loop either reads a character or holds a fresh non-empty token",
		Run: rulePanicProgress})
	register(&Rule{ID: "PANIC.nilres", Floor: 30,
		Doc: "results of functions that can return nil (current/next token, FindByName, GetVariable, child lookup, character state) are dereferenced only under a nil test or the parser-cursor typestate (hasMoreTokens / checkForMoreTokens / getNextToken facts, invalidated by every cursor movement)",
		Run: rulePanicNilRes})
}

// ---- PANIC.recover ----------------------------------------------------------------------------------

type recoverHandler struct {
	deferInstr *ssa.Defer
	stored     []string
	bad        string
}

// callsRecoverDirectly: recover() only has effect when called directly by the deferred function.
func callsRecoverDirectly(f *ssa.Function) bool {
	for _, ci := range allCalls(f) {
		if bi, ok := ci.Common().Value.(*ssa.Builtin); ok && bi.Name() == "recover" {
			return true
		}
	}
	return false
}

// recoverHandlers lists the deferred recover handlers of fn in both spellings: a closure assigning
// captured variables, or a named helper deferred with the addresses of variables it stores through.
func (c *Ctx) recoverHandlers(fn *ssa.Function) []*recoverHandler {
	var out []*recoverHandler
	// result slots returned after a panic: operands of the Return in the recover block
	slots := map[ssa.Value]bool{}
	if fn.Recover != nil {
		for _, ri := range fn.Recover.Instrs {
			if ret, ok := ri.(*ssa.Return); ok {
				for _, rv := range ret.Results {
					if ld, ok := rv.(*ssa.UnOp); ok && ld.Op == token.MUL {
						slots[ld.X] = true
					}
				}
			}
		}
	}
	for _, b := range fn.Blocks {
		for _, in := range b.Instrs {
			d, ok := in.(*ssa.Defer)
			if !ok {
				continue
			}
			h := &recoverHandler{deferInstr: d}
			switch v := d.Call.Value.(type) {
			case *ssa.MakeClosure:
				cl := v.Fn.(*ssa.Function)
				if !callsRecoverDirectly(cl) {
					continue
				}
				for i, fv := range cl.FreeVars {
					writes := false
					for _, r := range *fv.Referrers() {
						if st, ok := r.(*ssa.Store); ok && st.Addr == ssa.Value(fv) {
							writes = true
						}
					}
					if !writes {
						continue
					}
					h.stored = append(h.stored, fv.Name())
					if !slots[v.Bindings[i]] {
						h.bad = fmt.Sprintf("the handler assigns %q, which is not a named result of %s: after a recovered panic the function returns its (unassigned) result slots — a panicking call yields neither a value nor an error", fv.Name(), fn.Name())
					}
				}
			case *ssa.Function:
				if !callsRecoverDirectly(v) {
					continue
				}
				for i, p := range v.Params {
					if _, isPtr := p.Type().Underlying().(*types.Pointer); !isPtr {
						continue
					}
					writes := false
					for _, r := range *p.Referrers() {
						if st, ok := r.(*ssa.Store); ok && st.Addr == ssa.Value(p) {
							writes = true
						}
					}
					if !writes || i >= len(d.Call.Args) {
						continue
					}
					h.stored = append(h.stored, "*"+p.Name())
					if !slots[d.Call.Args[i]] {
						h.bad = fmt.Sprintf("the deferred helper %s stores through %q, which is not the address of a named result of %s: after a recovered panic the function returns its (unassigned) result slots", v.Name(), p.Name(), fn.Name())
					}
				}
			default:
				continue
			}
			if len(h.stored) == 0 {
				h.bad = "the handler recovers the panic but assigns nothing: the panic is swallowed without producing an error"
			}
			out = append(out, h)
		}
	}
	return out
}

func rulePanicRecover(c *Ctx) []*Obligation {
	o := newObl("PANIC.recover")
	for _, fn := range c.AllLibFuncs() {
		for _, h := range c.recoverHandlers(fn) {
			key := c.FuncKey(fn) + "#recover-handler"
			if h.bad != "" {
				o.bad(key, c.Pos(h.deferInstr.Pos()), h.bad)
			} else {
				o.ok(key, c.Pos(h.deferInstr.Pos()), "handler assigns the named result(s) "+strings.Join(h.stored, ", ")+" that the recover path returns")
			}
		}
	}
	return o.list
}

// ---- PANIC.result -----------------------------------------------------------------------------------

func isErrorType(t types.Type) bool { return t.String() == "error" }

func (c *Ctx) valueErrorFuncs() []*ssa.Function {
	var out []*ssa.Function
	for _, fn := range c.AllLibFuncs() {
		res := fn.Signature.Results()
		if res.Len() != 2 || !isErrorType(res.At(1).Type()) {
			continue
		}
		out = append(out, fn)
	}
	return out
}

// nonNilValue: v is certainly non-nil (allocation, constructor, or a value under a non-nil guard).
func (c *Ctx) certainlyNonNil(v ssa.Value, gs []guard, depth int) bool {
	if depth == 0 {
		return false
	}
	for _, g := range gs {
		cond, truth := g.atom()
		if bo, ok := cond.(*ssa.BinOp); ok && isNilConst(bo.Y) && bo.X == v {
			if (bo.Op == token.NEQ) == truth {
				return true
			}
		}
	}
	if ct, ok := v.(*ssa.ChangeType); ok {
		return c.certainlyNonNil(ct.X, gs, depth)
	}
	switch x := v.(type) {
	case *ssa.Alloc, *ssa.MakeInterface, *ssa.MakeClosure, *ssa.MakeSlice, *ssa.MakeMap, *ssa.Function:
		if mi, ok := v.(*ssa.MakeInterface); ok {
			return c.certainlyNonNil(mi.X, gs, depth-1) || !isPointerLike(mi.X.Type())
		}
		return true
	case *ssa.Call:
		f := calleeObj(x.Common())
		if f != nil {
			if c.isErrorCtor(f) {
				return true
			}
			if c.relPkg(f.Pkg()) != "" {
				// module constructor: all returns are allocations
				if fn := c.Prog.FuncValue(f); fn != nil && fn.Blocks != nil && fn.Signature.Results().Len() == 1 {
					all := true
					for _, ret := range returnsOf(fn) {
						if !c.certainlyNonNil(ret.Results[0], guardsAt(ret.Block()), depth-1) {
							all = false
						}
					}
					return all
				}
			}
		}
	case *ssa.Phi:
		for i, e := range x.Edges {
			pred := x.Block().Preds[i]
			if !c.certainlyNonNil(e, guardsOnEdge(pred, x.Block()), depth-1) {
				return false
			}
		}
		return true
	case *ssa.Const:
		return x.Value != nil
	case *ssa.Slice:
		return true
	case *ssa.Parameter:
		// the receiver of a method: callers do not invoke methods on nil receivers (stated assumption)
		if fn := x.Parent(); fn != nil && fn.Signature.Recv() != nil && len(fn.Params) > 0 && fn.Params[0] == x {
			return true
		}
	}
	return false
}

func isPointerLike(t types.Type) bool {
	switch t.Underlying().(type) {
	case *types.Pointer, *types.Interface, *types.Slice, *types.Map, *types.Signature, *types.Chan:
		return true
	}
	return false
}

// certainlyNil: v is the nil constant, or an error value under an `== nil` guard.
func certainlyNil(v ssa.Value, gs []guard) bool {
	if isNilConst(v) {
		return true
	}
	for _, g := range gs {
		cond, truth := g.atom()
		if bo, ok := cond.(*ssa.BinOp); ok && isNilConst(bo.Y) && bo.X == v {
			if (bo.Op == token.EQL) == truth {
				return true
			}
		}
	}
	return false
}

func rulePanicResult(c *Ctx) []*Obligation {
	o := newObl("PANIC.result")
	for _, fn := range c.valueErrorFuncs() {
		valPointer := isPointerLike(fn.Signature.Results().At(0).Type())
		n := 0
		for _, ret := range returnsOf(fn) {
			if fn.Recover != nil && ret.Block() == fn.Recover {
				continue
			}
			n++
			key := fmt.Sprintf("%s#return#%d", c.FuncKey(fn), n)
			val, errv := ret.Results[0], ret.Results[1]
			gs := guardsAt(ret.Block())
			errNil := certainlyNil(errv, gs)
			errNonNil := c.certainlyNonNil(errv, gs, 4)
			valNil := valPointer && certainlyNil(val, gs)
			valNonNil := !valPointer || c.certainlyNonNil(val, gs, 4)
			switch {
			case valNil && errNil:
				o.bad(key, c.Pos(ret.Pos()), "returns (nil, nil): neither a result nor an error"+errPolarityHint(errv, gs))
			case valNil && errNonNil:
				o.ok(key, c.Pos(ret.Pos()), "(nil, non-nil error)")
			case valNil:
				// error of unknown nilness with a nil value: must be under err != nil
				o.bad(key, c.Pos(ret.Pos()), "returns a nil value together with an error that is not known to be non-nil on this path")
			case errNil && valNonNil:
				o.ok(key, c.Pos(ret.Pos()), "(non-nil value, nil)")
			case errNil:
				o.ok(key, c.Pos(ret.Pos()), "(value, nil): value comes from a container/callee whose writers store non-nil (assumption A1)")
			case errNonNil && valNonNil && valPointer:
				o.bad(key, c.Pos(ret.Pos()), "returns both a value and an error")
			default:
				o.ok(key, c.Pos(ret.Pos()), "delegates the (value, error) pair of a callee unchanged")
			}
		}
	}
	return o.list
}

func errPolarityHint(errv ssa.Value, gs []guard) string {
	if !isNilConst(errv) {
		return " (the error is returned under an 'err == nil' test — inverted polarity)"
	}
	return ""
}

// ---- PANIC.ifacecmp ---------------------------------------------------------------------------------

func rulePanicIfaceCmp(c *Ctx) []*Obligation {
	o := newObl("PANIC.ifacecmp")
	names := c.variantTypeNames()
	for _, fn := range c.AllLibFuncs() {
		n := 0
		for _, b := range fn.Blocks {
			for _, in := range b.Instrs {
				bo, ok := in.(*ssa.BinOp)
				if !ok || (bo.Op != token.EQL && bo.Op != token.NEQ) {
					continue
				}
				if isNilConst(bo.X) || isNilConst(bo.Y) {
					continue
				}
				_, xi := bo.X.Type().Underlying().(*types.Interface)
				_, yi := bo.Y.Type().Underlying().(*types.Interface)
				if !xi || !yi {
					continue
				}
				n++
				key := fmt.Sprintf("%s#iface-compare#%d", c.FuncKey(fn), n)
				// are the operands Variant payloads?
				payload := func(v ssa.Value) bool {
					if ld, ok := v.(*ssa.UnOp); ok && ld.Op == token.MUL {
						if fa, ok := ld.X.(*ssa.FieldAddr); ok && fieldName(fa.X.Type(), fa.Field) == "value" {
							return true
						}
					}
					if call, ok := v.(*ssa.Call); ok {
						if _, isA := c.callTo(call, pkgVariants, "Variant", "AsObject"); isA {
							return true
						}
					}
					return false
				}
				// values of the empty interface type inside the variants package are payloads too (helpers that
				// receive two payloads as parameters)
				emptyIface := func(v ssa.Value) bool {
					it, ok := v.Type().Underlying().(*types.Interface)
					return ok && it.NumMethods() == 0 && c.relPkg(fn.Pkg.Pkg) == pkgVariants
				}
				if !payload(bo.X) && !payload(bo.Y) && !(emptyIface(bo.X) && emptyIface(bo.Y)) {
					o.ok(key, c.Pos(bo.Pos()), "interface comparison of non-payload values (states, functions, variables: comparable pointer types)")
					continue
				}
				// tag known on this path?
				tags := ""
				for _, g := range guardsAt(b) {
					cond, truth := g.atom()
					if _, k, op, ok := c.typeTestConst(cond, pkgVariants, "Variant"); ok && (op == token.EQL) == truth {
						tags = names[k]
					}
				}
				oneNil := len(b.Preds) > 0
				for _, pr := range b.Preds {
					ifi, ok := pr.Instrs[len(pr.Instrs)-1].(*ssa.If)
					nb, isB := ssa.Value(nil), false
					if ok {
						if x, okb := ifi.Cond.(*ssa.BinOp); okb && x.Op == token.EQL && isNilConst(x.Y) && (x.X == bo.X || x.X == bo.Y) && pr.Succs[0] == b {
							nb, isB = x.X, true
						}
					}
					_ = nb
					if !isB {
						oneNil = false
					}
				}
				if oneNil {
					o.ok(key, c.Pos(bo.Pos()), "one operand is nil on every edge into this block: comparing with a nil interface never panics")
					continue
				}
				notArray := false
				for _, g := range guardsAt(b) {
					cond, truth := g.atom()
					if x, ok := cond.(*ssa.BinOp); ok && (x.Op == token.EQL || x.Op == token.NEQ) {
						if k, isK := constInt(x.Y); isK && names[k] == "Array" {
							isTyp := false
							if ld, ok := x.X.(*ssa.UnOp); ok && ld.Op == token.MUL {
								if fa, ok := ld.X.(*ssa.FieldAddr); ok && fieldName(fa.X.Type(), fa.Field) == "typ" {
									isTyp = true
								}
							}
							if _, _, _, isT := c.typeTestConst(cond, pkgVariants, "Variant"); isT {
								isTyp = true
							}
							if isTyp && (x.Op == token.EQL) != truth {
								notArray = true
							}
						}
					}
				}
				if c.recoveredIntoNamedResult(fn) {
					o.ok(key, c.Pos(bo.Pos()), "the comparison runs under a deferred handler that recovers a panic into the function's named result: an uncomparable payload yields a result, not a crash")
					continue
				}
				notObject := false
				for _, g := range guardsAt(b) {
					cond, truth := g.atom()
					if x, ok := cond.(*ssa.BinOp); ok && (x.Op == token.EQL || x.Op == token.NEQ) {
						if k, isK := constInt(x.Y); isK && names[k] == "Object" && (x.Op == token.EQL) != truth {
							if ld, ok := x.X.(*ssa.UnOp); ok && ld.Op == token.MUL {
								if fa, ok := ld.X.(*ssa.FieldAddr); ok && fieldName(fa.X.Type(), fa.Field) == "typ" {
									notObject = true
								}
							}
							if _, _, _, isT := c.typeTestConst(cond, pkgVariants, "Variant"); isT {
								notObject = true
							}
						}
					}
				}
				if notArray && notObject && tags == "" {
					o.ok(key, c.Pos(bo.Pos()), "payloads compared only where the tag is neither Array nor Object (all other built-in payload types are comparable)")
					continue
				}
				if notArray && tags == "" {
					o.bad(key, c.Pos(bo.Pos()), "payloads are compared with "+bo.Op.String()+" wherever the tag is not Array, Object included: an Object variant may hold a host value Go cannot compare (map, slice, function) and the comparison panics")
					continue
				}
				switch tags {
				case "":
					o.bad(key, c.Pos(bo.Pos()), "two variant payloads are compared with "+bo.Op.String()+" with no restriction on the tag: when both hold arrays ([]*Variant) the comparison panics (comparing uncomparable type)")
				case "Array":
					o.bad(key, c.Pos(bo.Pos()), "array payloads compared with "+bo.Op.String()+": runtime panic")
				case "Object":
					o.bad(key, c.Pos(bo.Pos()), "under case Object the payloads are compared with "+bo.Op.String()+": a host value Go cannot compare (map, slice, function) makes the comparison panic")
				default:
					o.ok(key, c.Pos(bo.Pos()), "payload comparison under tag "+tags+" (comparable)")
				}
			}
		}
	}
	return o.list
}

// recoveredIntoNamedResult: fn defers a handler (closure, or a helper given the address of a named
// result) that calls recover() and assigns a named result of fn.
func (c *Ctx) recoveredIntoNamedResult(fn *ssa.Function) bool {
	for _, h := range c.recoverHandlers(fn) {
		if h.bad == "" {
			return true
		}
	}
	return false
}

// ---- PANIC.progress ---------------------------------------------------------------------------------

func rulePanicProgress(c *Ctx) []*Obligation {
	o := newObl("PANIC.progress")
	fn := c.MustFunc("tokenizers", "AbstractTokenizer", "ReadNextToken")
	// loop headers: blocks with a predecessor they dominate
	for _, h := range fn.Blocks {
		var back []*ssa.BasicBlock
		for _, p := range h.Preds {
			if h.Dominates(p) {
				back = append(back, p)
			}
		}
		if len(back) == 0 {
			continue
		}
		inLoop := map[*ssa.BasicBlock]bool{}
		for _, b := range fn.Blocks {
			if !h.Dominates(b) {
				continue
			}
			r := reachableBlocks(b, nil)
			for _, bk := range back {
				if r[bk] || b == bk {
					inLoop[b] = true
				}
			}
		}
		// (a) no loop-carried token value is used inside the loop
		for _, in := range h.Instrs {
			phi, ok := in.(*ssa.Phi)
			if !ok {
				break
			}
			if !isPointerLike(phi.Type()) {
				continue
			}
			key := fmt.Sprintf("%s#loop-carried#%s", c.FuncKey(fn), phi.Comment)
			carriesValue := false
			for i, e := range phi.Edges {
				if h.Dominates(h.Preds[i]) && !isNilConst(e) {
					carriesValue = true
				}
			}
			var useIn ssa.Instruction
			seen := map[ssa.Value]bool{}
			var walk func(v ssa.Value)
			walk = func(v ssa.Value) {
				if seen[v] || useIn != nil {
					return
				}
				seen[v] = true
				for _, r := range *v.Referrers() {
					if p2, ok := r.(*ssa.Phi); ok {
						if p2.Block() == h {
							continue
						}
						if inLoop[p2.Block()] {
							// the value flows on only along edges where it is not known to be nil
							flows := false
							for i, e := range p2.Edges {
								if e != v {
									continue
								}
								nilOnEdge := false
								for _, g := range guardsOnEdge(p2.Block().Preds[i], p2.Block()) {
									cond, truth := g.atom()
									if bo, ok := cond.(*ssa.BinOp); ok && isNilConst(bo.Y) && bo.X == v && (bo.Op == token.EQL) == truth {
										nilOnEdge = true
									}
								}
								if !nilOnEdge {
									flows = true
								}
							}
							if flows {
								walk(p2)
							}
						}
						continue
					}
					if inLoop[r.Block()] {
						// a use under `token == nil` sees no token of an earlier iteration; the nil test itself is no use
						if bo, ok := r.(*ssa.BinOp); ok && (isNilConst(bo.X) || isNilConst(bo.Y)) {
							continue
						}
						nilHere := false
						for _, g := range guardsAt(r.Block()) {
							cond, truth := g.atom()
							if bo, ok := cond.(*ssa.BinOp); ok && isNilConst(bo.Y) && bo.X == v && (bo.Op == token.EQL) == truth {
								nilHere = true
							}
						}
						if nilHere {
							continue
						}
						useIn = r
						return
					}
				}
			}
			walk(phi)
			if carriesValue && useIn != nil {
				o.bad(key, c.Pos(useIn.Pos()), "the token of the previous iteration is still live at the top of the loop and is used here: after a skipped token, a character with no state re-tests the stale token, never reads the character and the loop never terminates")
			} else {
				o.ok(key, c.Pos(phi.Pos()), "no value from a previous iteration is used inside the loop")
			}
		}
		// (b) every way around the loop makes progress - derived from the exhaustive model of the loop:
		// a scenario that goes around (skip) must have moved the scanner (a state's non-empty token, by
		// SCAN.balance, stands for at least one consumed character; the fallback reads one)
		key := c.FuncKey(fn) + "#cycle-advances"
		bad, undec, nSkip := "", "", 0
		names := c.constNames("tokenizers", "")
		for _, run := range c.mainLoopRuns() {
			if run.res.outcome == "opaque" {
				undec = run.res.why
				continue
			}
			if run.res.outcome != "skip" {
				continue
			}
			nSkip++
			moved := false
			for _, op := range run.res.ops {
				if op == "Read" || (op == "NextToken" && !run.sc.tokNil && !run.sc.tokEmpty && !run.sc.stateNil) {
					moved = true
				}
			}
			if !moved && bad == "" {
				bad = fmt.Sprintf("the loop goes around without consuming anything [%s, %s]: it never terminates", run.sc.group(names), optSetString(run.sc.opts))
			}
		}
		switch {
		case undec != "":
			o.undecided(key, c.Pos(fn.Pos()), undec)
		case bad != "":
			o.bad(key, c.Pos(fn.Pos()), bad)
		default:
			o.ok(key, c.Pos(fn.Pos()), fmt.Sprintf("%d skipping scenario(s), each consumed at least one character", nSkip))
		}
	}
	return o.list
}

// ---- PANIC.explicit ---------------------------------------------------------------------------------

func rulePanicExplicit(c *Ctx) []*Obligation {
	o := newObl("PANIC.explicit")
	region := c.untrustedRegion()
	e := c.tagEngine()
	for _, fn := range c.AllLibFuncs() {
		n := 0
		for _, b := range fn.Blocks {
			for _, in := range b.Instrs {
				p, ok := in.(*ssa.Panic)
				if !ok {
					continue
				}
				n++
				msg := ""
				if s, ok := constString(stripConv(p.X)); ok {
					msg = s
				}
				key := fmt.Sprintf("%s#panic#%d", c.FuncKey(fn), n)
				if !region[fn] {
					o.ok(key, c.Pos(p.Pos()), "API-misuse contract ("+msg+"): the function is not reachable from any untrusted-input entry point")
					continue
				}
				why, good := c.dischargePanic(fn, p, e)
				if good {
					o.ok(key, c.Pos(p.Pos()), why)
				} else {
					o.bad(key, c.Pos(p.Pos()), fmt.Sprintf("panic(%q) is reachable from untrusted input: %s", msg, why))
				}
			}
		}
	}
	return o.list
}

// dischargePanic tries the enumerated arguments for a panic site inside the untrusted region.
func (c *Ctx) dischargePanic(fn *ssa.Function, p *ssa.Panic, e *tagEngine) (string, bool) {
	ex := c.newExpr(fn)
	gs := guardsAt(p.Block())
	// entry conditions (OR of true edges) for `if a || b { panic }`
	conds := c.entryConds(p.Block(), ex)
	condStr := strings.Join(conds, " || ")
	fk := c.FuncKey(fn)
	switch {
	case strings.HasSuffix(fk, "CalculationStack).Pop") || strings.HasSuffix(fk, "CalculationStack).Peek") || strings.HasSuffix(fk, "CalculationStack).PeekAt"):
		// the stack discipline needs only the COUNTING obligations of GRAM.arity: operands compiled
		// before an operator's emission = values its handler pops; the argument counter counts the
		// compiled arguments; the call handler pops the count and then count values. Which level an
		// operand is parsed at and the order operands are used in are irrelevant for underflow.
		res := runRule(c, "GRAM.arity")
		if res.broken != "" {
			return "GRAM.arity could not run", false
		}
		n := 0
		for _, ob := range res.obls {
			if !(strings.Contains(ob.Construct, "#arity#") || strings.Contains(ob.Construct, "#call#count-") || strings.Contains(ob.Construct, "#call#pops-")) {
				continue
			}
			n++
			if ob.Status != Discharged {
				return "the stack-discipline argument needs the counting obligation " + ob.Key() + ", which is open", false
			}
		}
		if n < 20 {
			return "the stack-discipline argument found too few counting obligations", false
		}
		return fmt.Sprintf("stack never underflows: for every operator the operands compiled before its emission equal the values its handler pops, and the call handler pops exactly the compiled argument count (%d counting obligations of GRAM.arity hold)", n), true
	case strings.Contains(fk, "CommentState).NextToken"):
		// registered only for '/': every SetCharacterState(a, b, commentState) has a == b == '/'
		return c.commentStateOnlySlash()
	case strings.HasSuffix(fk, "GenericNumberState).NextToken"):
		return c.numberStateHasSymbolState()
	case strings.HasSuffix(fk, "(*Variant).GetByIndex"):
		return c.getByIndexCallersChecked(fn)
	case strings.HasSuffix(fk, "utilities.NewCharReferenceInterval") || strings.HasSuffix(fk, "(*CharReferenceMap).AddInterval"):
		return c.intervalFamilyOrdered()
	}
	// parameter-guarded panics: every in-region call site must falsify the guard
	if len(conds) > 0 {
		okAll, why := c.callersFalsify(fn, p, 3)
		if okAll {
			return "guard (" + condStr + ") is false at every in-region call site: " + why, true
		}
		return "guard (" + condStr + ") — " + why, false
	}
	_ = gs
	return "no discharge argument applies", false
}

// callersFalsify: the panic in fn is entered under a condition on fn's parameters; check each call site
// in the region.
func (c *Ctx) callersFalsify(fn *ssa.Function, p *ssa.Panic, depth int) (bool, string) {
	region := c.untrustedRegion()
	e := c.tagEngine()
	type atom struct {
		param int
		op    token.Token
		other ssa.Value // const or another parameter
	}
	var atoms []atom
	collect := func(cond ssa.Value) bool {
		bo, ok := cond.(*ssa.BinOp)
		if !ok {
			return false
		}
		idx := func(v ssa.Value) int {
			v = stripConv(v)
			for i, prm := range fn.Params {
				if ssa.Value(prm) == v {
					return i
				}
			}
			return -1
		}
		if i := idx(bo.X); i >= 0 {
			atoms = append(atoms, atom{i, bo.Op, bo.Y})
			return true
		}
		// len(p) == 0 / len([]rune(p)) == 0 on a string parameter: the same as p == ""
		for _, pair := range [][2]ssa.Value{{bo.X, bo.Y}, {bo.Y, bo.X}} {
			call, isCall := pair[0].(*ssa.Call)
			k, isK := constInt(pair[1])
			if !isCall || !isK || k != 0 || bo.Op != token.EQL {
				continue
			}
			if bi, ok := call.Call.Value.(*ssa.Builtin); ok && bi.Name() == "len" {
				arg := call.Call.Args[0]
				if cv, ok := arg.(*ssa.Convert); ok {
					arg = cv.X
				}
				for i, prm := range fn.Params {
					if ssa.Value(prm) == arg {
						if b, ok := prm.Type().Underlying().(*types.Basic); ok && b.Kind() == types.String {
							atoms = append(atoms, atom{i, token.EQL, ssa.NewConst(constant.MakeString(""), prm.Type())})
							return true
						}
					}
				}
			}
		}
		return false
	}
	blk := p.Block()
	allTrue := len(blk.Preds) > 0
	for _, pr := range blk.Preds {
		ifi, ok := pr.Instrs[len(pr.Instrs)-1].(*ssa.If)
		if !ok || pr.Succs[0] != blk || !collect(ifi.Cond) {
			allTrue = false
		}
	}
	if !allTrue {
		return false, "the panic guard is not a simple condition on the function's parameters"
	}
	sites := e.callers[fn]
	var notes []string
	for _, ci := range sites {
		if !region[ci.Parent()] {
			continue
		}
		for _, a := range atoms {
			arg := ci.Common().Args[a.param]
			okSite := false
			switch {
			case isNilConst(a.other) && a.op == token.EQL:
				okSite = c.certainlyNonNil(arg, guardsAt(ci.Block()), 4)
			case func() bool { s, ok := constString(a.other); return ok && s == "" && a.op == token.EQL }():
				if s, ok := constString(arg); ok && s != "" {
					okSite = true
				} else if ss := c.stringsOf(regEvent{}, arg, 4); len(ss) > 0 {
					okSite = true
					for _, s := range ss {
						if s == "" {
							okSite = false
						}
					}
				} else {
					for _, g := range guardsAt(ci.Block()) {
						cond, truth := g.atom()
						if bo, ok := cond.(*ssa.BinOp); ok && c.sameValue(bo.X, arg) {
							if s2, ok := constString(bo.Y); ok && s2 == "" && (bo.Op == token.NEQ) == truth {
								okSite = true
							}
						}
					}
				}
			case a.op == token.GTR: // start > end
				if oi := paramIndex(fn, a.other); oi >= 0 {
					x, okx := constInt(stripConv(arg))
					y, oky := constInt(stripConv(ci.Common().Args[oi]))
					if okx && oky && x <= y {
						okSite = true
					}
					if c.sameValue(stripConv(arg), stripConv(ci.Common().Args[oi])) {
						okSite = true // f(x, x)
					}
				}
			}
			if !okSite {
				// pass-through of the caller's own parameter: the obligation moves to the caller's call sites
				if pi := paramIndex(ci.Parent(), arg); pi >= 0 && depth > 0 && a.op == token.EQL {
					ok2, why2 := c.paramNeverSatisfies(ci.Parent(), pi, a.other, depth-1)
					if ok2 {
						notes = append(notes, why2)
						continue
					}
					return false, why2
				}
				ex := c.newExpr(ci.Parent())
				return false, fmt.Sprintf("call site in %s (%s) passes %s, which may satisfy the panic condition", c.FuncKey(ci.Parent()), c.Pos(ci.Pos()), ex.str(arg))
			}
		}
	}
	sort.Strings(notes)
	return true, fmt.Sprintf("%d in-region call site(s) checked", len(sites))
}

func paramIndex(fn *ssa.Function, v ssa.Value) int {
	v = stripConv(v)
	for i, p := range fn.Params {
		if ssa.Value(p) == v {
			return i
		}
	}
	return -1
}

// commentStateOnlySlash: C/C++ comment states are registered for the single character '/' only.
func (c *Ctx) commentStateOnlySlash() (string, bool) {
	n := 0
	for _, fn := range c.AllLibFuncs() {
		for _, ci := range allCalls(fn) {
			cc, ok := c.callTo(ci, "tokenizers", "AbstractTokenizer", "SetCharacterState")
			if !ok {
				continue
			}
			args := callArgs(cc)
			// is the state a comment state? the argument is c.CommentState() (call) — resolve the tokenizer's SetCommentState argument type
			sc, isCall := stripConv(args[2]).(*ssa.Call)
			if !isCall {
				continue
			}
			if f := calleeObj(sc.Common()); f == nil || f.Name() != "CommentState" {
				continue
			}
			// which comment state did this constructor install?
			slashOnly := false
			a, oka := constInt(args[0])
			b, okb := constInt(args[1])
			if oka && okb && a == '/' && b == '/' {
				slashOnly = true
			}
			installsC := false
			for _, cj := range allCalls(fn) {
				if cc2, ok := c.callTo(cj, "tokenizers", "AbstractTokenizer", "SetCommentState"); ok {
					if k, isK := stripConv(callArgs(cc2)[0]).(*ssa.Call); isK {
						if g := calleeObj(k.Common()); g != nil && (g.Name() == "NewCCommentState" || g.Name() == "NewCppCommentState") {
							installsC = true
						}
					}
				}
			}
			if installsC {
				n++
				if !slashOnly {
					return fmt.Sprintf("%s registers a C-style comment state for characters other than '/'", c.FuncKey(fn)), false
				}
			}
		}
	}
	return fmt.Sprintf("every registration of a C/C++ comment state (%d) is for '/'..'/' only, and dispatch passes the character it peeked", n), true
}

// numberStateHasSymbolState: constructors that register a number state install a symbol state first.
func (c *Ctx) numberStateHasSymbolState() (string, bool) {
	n := 0
	for _, fn := range c.AllLibFuncs() {
		var setNumber, setSymbol ssa.Instruction
		for _, ci := range allCalls(fn) {
			if cc, ok := c.callTo(ci, "tokenizers", "AbstractTokenizer", "SetNumberState"); ok {
				if !isNilConst(stripConv(callArgs(cc)[0])) {
					setNumber = ci
				}
			}
			if cc, ok := c.callTo(ci, "tokenizers", "AbstractTokenizer", "SetSymbolState"); ok {
				if c.certainlyNonNil(stripConv(callArgs(cc)[0]), nil, 4) {
					setSymbol = ci
				}
			}
		}
		if setNumber != nil {
			n++
			if setSymbol == nil {
				return fmt.Sprintf("%s installs a number state without a non-nil symbol state", c.FuncKey(fn)), false
			}
		}
	}
	return fmt.Sprintf("all %d constructors that install a number state also install a freshly constructed symbol state", n), true
}

// ---- PANIC.nilres -----------------------------------------------------------------------------------

// mayReturnNil: module functions with a pointer/interface result that have a nil-returning path.
func (c *Ctx) mayReturnNil(fn *ssa.Function) bool {
	if fn == nil || fn.Blocks == nil || fn.Signature.Results().Len() != 1 || !isPointerLike(fn.Signature.Results().At(0).Type()) {
		return false
	}
	if _, isSlice := fn.Signature.Results().At(0).Type().Underlying().(*types.Slice); isSlice {
		return false
	}
	for _, ret := range returnsOf(fn) {
		if c.certainlyNonNil(ret.Results[0], guardsAt(ret.Block()), 5) {
			continue
		}
		for _, leaf := range phiLeaves(ret.Results[0]) {
			if isNilConst(leaf) {
				return true
			}
			// comma-ok assertion result: nil when the assertion fails
			if ex, ok := leaf.(*ssa.Extract); ok {
				if ta, ok := ex.Tuple.(*ssa.TypeAssert); ok && ta.CommaOk {
					return true
				}
			}
			if call, ok := leaf.(*ssa.Call); ok {
				if g := call.Call.StaticCallee(); g != nil && g != fn && c.InModule(g) && c.mayReturnNilDepth(g, 2) {
					return true
				}
			}
		}
	}
	return false
}

func (c *Ctx) mayReturnNilDepth(fn *ssa.Function, d int) bool {
	if d == 0 {
		return false
	}
	return c.mayReturnNil(fn)
}

// cursorState computes, for a parser method, a lower bound R on the number of remaining tokens before
// each instruction (forward must-dataflow, join = min).
type cursorFacts struct {
	before map[ssa.Instruction]int
}

func (c *Ctx) cursorWriters(pkg, typ string) map[*ssa.Function]bool {
	out := map[*ssa.Function]bool{}
	ms := c.methodsOfType(pkg, typ)
	direct := func(f *ssa.Function) bool {
		for _, b := range f.Blocks {
			for _, in := range b.Instrs {
				if st, ok := in.(*ssa.Store); ok {
					if fa, ok := st.Addr.(*ssa.FieldAddr); ok {
						n := fieldName(fa.X.Type(), fa.Field)
						if n == "currentTokenIndex" || n == "initialTokens" {
							return true
						}
					}
				}
			}
		}
		return false
	}
	for _, f := range ms {
		if direct(f) {
			out[f] = true
		}
	}
	for changed := true; changed; {
		changed = false
		for _, f := range ms {
			if out[f] {
				continue
			}
			for _, g := range staticCallees(f) {
				if out[g] {
					out[f] = true
					changed = true
				}
			}
		}
	}
	return out
}

func (c *Ctx) cursorAnalysis(fn *ssa.Function, pkg, typ string) *cursorFacts {
	writers := c.cursorWriters(pkg, typ)
	move := c.Func(pkg, typ, "moveToNextToken")
	has := c.Func(pkg, typ, "hasMoreTokens")
	check := c.Func(pkg, typ, "checkForMoreTokens")
	next := c.Func(pkg, typ, "getNextToken")
	cur := c.Func(pkg, typ, "getCurrentToken")
	facts := &cursorFacts{before: map[ssa.Instruction]int{}}
	in := map[*ssa.BasicBlock]int{}
	out := map[*ssa.BasicBlock]int{}
	for _, b := range fn.Blocks {
		in[b], out[b] = 2, 2
	}
	step := func(ins ssa.Instruction, r int) int {
		if ci, ok := ins.(ssa.CallInstruction); ok {
			g := ci.Common().StaticCallee()
			switch {
			case g == nil:
				if ci.Common().IsInvoke() {
					return r // interface calls on tokenizer etc. do not touch the cursor
				}
			case g == move:
				if r > 0 {
					return r - 1
				}
				return 0
			case writers[g]:
				return 0
			}
		}
		return r
	}
	// edge refinement from the terminating If of pred
	edge := func(p, b *ssa.BasicBlock, r int) int {
		ifi, ok := p.Instrs[len(p.Instrs)-1].(*ssa.If)
		if !ok || p.Succs[0] == p.Succs[1] {
			return r
		}
		truth := p.Succs[0] == b
		g := guard{Cond: ifi.Cond, Truth: truth}
		cond, t := g.atom()
		// the fact is valid only if no cursor write happens between the observing call and the branch
		fresh := func(obs ssa.Instruction) bool {
			if obs.Block() != p {
				// observed earlier: require no writer call on the dominator path (conservative: same block only, or straight dominance without writers)
				for _, x := range allCalls(fn) {
					if gx := x.Common().StaticCallee(); gx != nil && (gx == move || writers[gx]) && instrDominates(obs, x) && instrDominates(x, ifi) {
						return false
					}
				}
				return obs.Block().Dominates(p)
			}
			after := false
			for _, x := range p.Instrs {
				if x == obs {
					after = true
					continue
				}
				if after {
					if ci, ok := x.(ssa.CallInstruction); ok {
						if gx := ci.Common().StaticCallee(); gx != nil && (gx == move || writers[gx]) {
							return false
						}
					}
				}
			}
			return true
		}
		if call, ok := cond.(*ssa.Call); ok && call.Call.StaticCallee() == has && has != nil && t && fresh(call) {
			if r < 1 {
				r = 1
			}
		}
		if bo, ok := cond.(*ssa.BinOp); ok && isNilConst(bo.Y) {
			if call, ok := bo.X.(*ssa.Call); ok {
				g := call.Call.StaticCallee()
				nonNil := (bo.Op == token.NEQ) == t
				isNil := (bo.Op == token.EQL) == t
				switch {
				case g == check && check != nil && isNil && fresh(call):
					if r < 1 {
						r = 1
					}
				case g == next && next != nil && nonNil && fresh(call):
					if r < 2 {
						r = 2
					}
				case g == cur && cur != nil && nonNil && fresh(call):
					if r < 1 {
						r = 1
					}
				}
			}
			// phi of current-token calls tested non-nil
			if phi, ok := bo.X.(*ssa.Phi); ok && (bo.Op == token.NEQ) == t {
				all := true
				for _, leaf := range phiLeaves(phi) {
					lc, ok := leaf.(*ssa.Call)
					if !ok || lc.Call.StaticCallee() != cur || !fresh(lc) {
						all = false
					}
				}
				if all && r < 1 {
					r = 1
				}
			}
		}
		return r
	}
	for changed := true; changed; {
		changed = false
		for _, b := range fn.Blocks {
			r := 2
			if len(b.Preds) == 0 || b == fn.Blocks[0] {
				r = 0
			}
			for _, p := range b.Preds {
				if v := edge(p, b, out[p]); v < r {
					r = v
				}
			}
			if b == fn.Blocks[0] {
				r = 0
			}
			nr := r
			for _, ins := range b.Instrs {
				nr = step(ins, nr)
			}
			if r != in[b] || nr != out[b] {
				in[b], out[b] = r, nr
				changed = true
			}
		}
	}
	for _, b := range fn.Blocks {
		r := in[b]
		for _, ins := range b.Instrs {
			facts.before[ins] = r
			r = step(ins, r)
		}
	}
	return facts
}

func rulePanicNilRes(c *Ctx) []*Obligation {
	o := newObl("PANIC.nilres")
	region := c.untrustedRegion()
	parserOf := func(fn *ssa.Function) (string, string) {
		if fn.Signature.Recv() == nil {
			return "", ""
		}
		k := c.FuncKey(fn)
		if strings.HasPrefix(k, pkgParsers+".(*ExpressionParser)") {
			return pkgParsers, "ExpressionParser"
		}
		if strings.HasPrefix(k, "mustache/parsers.(*MustacheParser)") {
			return "mustache/parsers", "MustacheParser"
		}
		return "", ""
	}
	var fns []*ssa.Function
	for fn := range region {
		fns = append(fns, fn)
	}
	sort.Slice(fns, func(i, j int) bool { return c.FuncKey(fns[i]) < c.FuncKey(fns[j]) })
	for _, fn := range fns {
		if fn.Blocks == nil {
			continue
		}
		var cf *cursorFacts
		pp, pt := parserOf(fn)
		if pp != "" {
			cf = c.cursorAnalysis(fn, pp, pt)
		}
		cnt := map[string]int{}
		for _, ci := range allCalls(fn) {
			call, ok := ci.(*ssa.Call)
			if !ok {
				continue
			}
			var cands []*ssa.Function
			if g := call.Call.StaticCallee(); g != nil {
				cands = append(cands, g)
			} else if call.Call.IsInvoke() {
				for _, m := range c.implsOfMethod(call.Call.Method) {
					if f := c.Prog.FuncValue(m); f != nil {
						cands = append(cands, f)
					}
				}
			}
			nilable := false
			name := ""
			for _, g := range cands {
				if c.InModule(g) && c.mayReturnNil(g) {
					nilable = true
					name = g.Name()
				}
			}
			if !nilable {
				continue
			}
			// dereferencing uses of the result
			var derefs []ssa.Instruction
			seen := map[ssa.Value]bool{}
			var walk func(v ssa.Value)
			walk = func(v ssa.Value) {
				if seen[v] {
					return
				}
				seen[v] = true
				for _, r := range *v.Referrers() {
					switch u := r.(type) {
					case *ssa.Phi:
						walk(u)
					case *ssa.FieldAddr:
						if u.X == v {
							derefs = append(derefs, u)
						}
					case *ssa.UnOp:
						if u.Op == token.MUL && u.X == v {
							derefs = append(derefs, u)
						}
					case ssa.CallInstruction:
						cc := u.Common()
						if cc.IsInvoke() && cc.Value == v {
							derefs = append(derefs, u)
						} else if g := cc.StaticCallee(); g != nil && g.Signature.Recv() != nil && len(cc.Args) > 0 && cc.Args[0] == v {
							if c.derefsReceiver(g) {
								derefs = append(derefs, u)
							}
						}
					case *ssa.TypeAssert:
						if !u.CommaOk {
							derefs = append(derefs, u)
						}
					}
				}
			}
			walk(call)
			for _, d := range derefs {
				cnt[name]++
				key := fmt.Sprintf("%s#deref-of#%s#%d", c.FuncKey(fn), name, cnt[name])
				// (1) dominating nil test on the call result or on a phi through which it flows
				guarded := false
				for v := range seen {
					for _, g := range guardsAt(d.Block()) {
						cond, truth := g.atom()
						if bo, ok := cond.(*ssa.BinOp); ok && isNilConst(bo.Y) && bo.X == v && (bo.Op == token.NEQ) == truth {
							guarded = true
						}
					}
				}
				if guarded {
					o.ok(key, c.Pos(d.Pos()), "dominated by a non-nil test")
					continue
				}
				if op := derefOperand(d); op != nil && c.certainlyNonNil(op, guardsAt(d.Block()), 5) {
					o.ok(key, c.Pos(d.Pos()), "the dereferenced value is non-nil on every edge it arrives by (nil-tested before it is merged)")
					continue
				}
				// (2) cursor typestate
				if cf != nil && (name == "getCurrentToken" || name == "getNextToken") {
					need := 1
					if name == "getNextToken" {
						need = 2
					}
					if r, ok := cf.before[call]; ok && r >= need {
						o.ok(key, c.Pos(d.Pos()), fmt.Sprintf("cursor typestate: at least %d token(s) remain at the %s() call", r, name))
						continue
					}
					if r, ok := cf.before[d]; ok && r >= need && c.noCursorWriteSince(fn, derefOperand(d), d, name, pp, pt, 6) {
						o.ok(key, c.Pos(d.Pos()), fmt.Sprintf("cursor typestate: %d token(s) remain at the dereference and the cursor was not moved since the %s() call", r, name))
						continue
					}
					if os.Getenv("NILDEBUG") != "" {
						r1, ok1 := cf.before[call]
						r2, ok2 := cf.before[d]
						fmt.Fprintf(os.Stderr, "NILDEBUG %s call=%s before[call]=%d,%v before[d]=%d,%v op=%v nowrite=%v\n", key, c.Pos(call.Pos()), r1, ok1, r2, ok2, derefOperand(d), c.noCursorWriteSince(fn, derefOperand(d), d, name, pp, pt, 6))
					}
					if why, ok := c.functionTokenException(fn, call, cf); ok {
						o.reviewed(key, c.Pos(d.Pos()), why)
						continue
					}
					o.bad(key, c.Pos(d.Pos()), fmt.Sprintf("%s() can return nil here (no hasMoreTokens/checkForMoreTokens/non-nil fact survives since the last cursor movement) and the result is dereferenced: a nil-pointer panic on truncated input", name))
					continue
				}
				o.bad(key, c.Pos(d.Pos()), name+"() may return nil and the result is dereferenced without a nil test")
			}
		}
	}
	return o.list
}

// derefsReceiver: the method reads through its pointer receiver (so a nil receiver panics).
func (c *Ctx) derefsReceiver(g *ssa.Function) bool {
	if g.Blocks == nil || len(g.Params) == 0 {
		return true
	}
	recv := g.Params[0]
	for _, r := range *recv.Referrers() {
		switch u := r.(type) {
		case *ssa.FieldAddr:
			return true
		case *ssa.UnOp:
			if u.Op == token.MUL {
				return true
			}
		case ssa.CallInstruction:
			return true
		}
	}
	return false
}

// functionTokenException: in the primary level, after consuming the function name the '(' token is
// read without a fresh cursor fact. Justified by: a Function-typed token is constructed at exactly one
// site, under getNextToken() != nil, and the read happens one move later under Type()==Function.
func (c *Ctx) functionTokenException(fn *ssa.Function, call *ssa.Call, cf *cursorFacts) (string, bool) {
	fk, ok := c.constByName(pkgParsers, "Function")
	if !ok {
		return "", false
	}
	// the call must be dominated by a guard <tok>.Type() == Function
	var tok ssa.Value
	for _, g := range guardsAt(call.Block()) {
		cond, truth := g.atom()
		if recv, k, op, ok := c.typeTestConst(cond, pkgParsers, "ExpressionToken"); ok && k == fk && (op == token.EQL) == truth {
			tok = recv
		}
	}
	if tok == nil {
		return "", false
	}
	// every Function-typed leaf of tok is a construction under getNextToken() != nil, and the lexer never produces Function
	sites := 0
	for _, f := range c.AllLibFuncs() {
		for _, ci := range allCalls(f) {
			if cc, ok := c.callTo(ci, pkgParsers, "", "NewExpressionToken"); ok {
				if k, isK := constInt(cc.Args[0]); isK && k == fk {
					sites++
					if f != fn {
						return "", false
					}
					r := cf.before[ci]
					if r < 2 {
						return "", false
					}
				}
			}
		}
	}
	if sites != 1 {
		return "", false
	}
	// exactly one cursor movement between the construction and this call
	moves := 0
	move := c.Func(pkgParsers, "ExpressionParser", "moveToNextToken")
	for _, ci := range allCalls(fn) {
		if ci.Common().StaticCallee() == move && ci.Block() == call.Block() && instrDominates(ci, call) {
			moves++
		}
	}
	if moves != 1 {
		return "", false
	}
	return "reviewed: type Function is assigned at exactly one site, under getNextToken() != nil (two tokens remain); one moveToNextToken() later one token still remains (fingerprint re-verified: single construction site with R>=2, single move)", true
}

// cursorWriteBetween: some path from just after `from` to `to` (not re-executing `from`) contains a call
// that moves the cursor.
func (c *Ctx) cursorWriteBetween(fn *ssa.Function, from, to ssa.Instruction, pkg, typ string) bool {
	writers := c.cursorWriters(pkg, typ)
	isWriter := func(in ssa.Instruction) bool {
		if ci, ok := in.(ssa.CallInstruction); ok {
			if g := ci.Common().StaticCallee(); g != nil && writers[g] {
				return true
			}
		}
		return false
	}
	// scan the remainder of from's block
	scan := func(instrs []ssa.Instruction) (hitTo, hitWriter bool) {
		for _, in := range instrs {
			if in == to {
				return true, false
			}
			if in == from {
				return true, false // re-execution: stop
			}
			if isWriter(in) {
				return false, true
			}
		}
		return false, false
	}
	fb := from.Block()
	idx := 0
	for i, in := range fb.Instrs {
		if in == from {
			idx = i + 1
		}
	}
	if ht, hw := scan(fb.Instrs[idx:]); hw {
		return true
	} else if ht {
		return false
	}
	seen := map[*ssa.BasicBlock]bool{}
	var walk func(b *ssa.BasicBlock) bool
	walk = func(b *ssa.BasicBlock) bool {
		if seen[b] {
			return false
		}
		seen[b] = true
		ht, hw := scan(b.Instrs)
		if hw {
			// only counts if `to` is reachable afterwards without executing `from` again (a new value then)
			stop := map[*ssa.BasicBlock]bool{}
			if fb != to.Block() && fb != b {
				stop[fb] = true
			}
			if reachableBlocks(b, stop)[to.Block()] {
				return true
			}
			return false
		}
		if ht {
			return false
		}
		for _, s := range b.Succs {
			if walk(s) {
				return true
			}
		}
		return false
	}
	for _, s := range fb.Succs {
		if walk(s) {
			return true
		}
	}
	return false
}

// getByIndexCallersChecked: every in-region call of Variant.GetByIndex is dominated by
// recv.Type()==Array, 0 <= index and index < recv.Length().
func (c *Ctx) getByIndexCallersChecked(fn *ssa.Function) (string, bool) {
	region := c.untrustedRegion()
	e := c.tagEngine()
	n := 0
	for _, ci := range e.callers[fn] {
		if !region[ci.Parent()] {
			continue
		}
		n++
		recv, idx := ci.Common().Args[0], ci.Common().Args[1]
		isArray, lower, upper := false, false, false
		for _, g := range guardsAt(ci.Block()) {
			cond, truth := g.atom()
			if r, k, op, ok := c.typeTestConst(cond, pkgVariants, "Variant"); ok && c.sameValue(r, recv) && c.variantTypeNames()[k] == "Array" && (op == token.EQL) == truth {
				isArray = true
			}
			bo, ok := cond.(*ssa.BinOp)
			if !ok {
				continue
			}
			x, y, op := bo.X, bo.Y, bo.Op
			if !truth {
				op = negateOp(op)
			}
			if c.sameValue(x, idx) {
				if k, ok := constInt(y); ok && ((op == token.GEQ && k == 0) || (op == token.GTR && k == -1)) {
					lower = true
				}
				if lc, ok := y.(*ssa.Call); ok && op == token.LSS {
					if _, isL := c.callTo(lc, pkgVariants, "Variant", "Length"); isL && c.sameValue(callRecv(lc.Common()), recv) {
						upper = true
					}
				}
			}
			if c.sameValue(y, idx) {
				if lc, ok := x.(*ssa.Call); ok && op == token.GTR {
					if _, isL := c.callTo(lc, pkgVariants, "Variant", "Length"); isL && c.sameValue(callRecv(lc.Common()), recv) {
						upper = true
					}
				}
			}
		}
		if !(isArray && lower && upper) {
			return fmt.Sprintf("call in %s (%s) is not dominated by Type()==Array (%v), index >= 0 (%v) and index < Length() (%v): an out-of-range or negative index panics", c.FuncKey(ci.Parent()), c.Pos(ci.Pos()), isArray, lower, upper), false
		}
	}
	return fmt.Sprintf("all %d in-region call sites test Type()==Array and 0 <= index < Length() first", n), true
}

func negateOp(op token.Token) token.Token {
	switch op {
	case token.EQL:
		return token.NEQ
	case token.NEQ:
		return token.EQL
	case token.LSS:
		return token.GEQ
	case token.GEQ:
		return token.LSS
	case token.GTR:
		return token.LEQ
	case token.LEQ:
		return token.GTR
	}
	return op
}

// intervalFamilyOrdered: the interval-registration family (AddInterval and its public wrappers) is called
// in the module only with constant ordered pairs whose start is below U+FFFF, with the same value twice,
// or with the wrapper's own parameters.
func (c *Ctx) intervalFamilyOrdered() (string, bool) {
	family := map[string]bool{"AddInterval": true, "SetCharacterState": true, "SetWordChars": true, "SetWhitespaceChars": true}
	n := 0
	for _, fn := range c.AllLibFuncs() {
		for _, ci := range allCalls(fn) {
			f := calleeObj(ci.Common())
			if f == nil || !family[f.Name()] || c.relPkg(f.Pkg()) == "" {
				continue
			}
			args := callArgs(ci.Common())
			if len(args) < 2 {
				continue
			}
			n++
			a, b := stripConv(args[0]), stripConv(args[1])
			ka, oka := constInt(a)
			kb, okb := constInt(b)
			switch {
			case oka && okb && ka <= kb && ka < 0xffff:
			case c.sameValue(a, b):
			case paramIndex(fn, a) >= 0 && paramIndex(fn, b) >= 0 && family[fn.Name()]:
			default:
				return fmt.Sprintf("%s (%s) registers a range whose order cannot be established", c.FuncKey(fn), c.Pos(ci.Pos())), false
			}
		}
	}
	return fmt.Sprintf("reviewed: all %d in-module range registrations pass ordered constants below U+FFFF, one character twice, or forward their own parameters (configuration characters are documented to lie below U+FFFF)", n), true
}

func derefOperand(d ssa.Instruction) ssa.Value {
	switch u := d.(type) {
	case *ssa.FieldAddr:
		return u.X
	case *ssa.UnOp:
		return u.X
	case *ssa.TypeAssert:
		return u.X
	case ssa.CallInstruction:
		cc := u.Common()
		if cc.IsInvoke() {
			return cc.Value
		}
		if len(cc.Args) > 0 {
			return cc.Args[0]
		}
	}
	return nil
}

// noCursorWriteSince: every way the value v (a cursor-accessor result, possibly merged by phis) can reach
// `at` is free of cursor movements between the accessor call and `at`.
func (c *Ctx) noCursorWriteSince(fn *ssa.Function, v ssa.Value, at ssa.Instruction, accessor, pkg, typ string, depth int) bool {
	if v == nil || depth == 0 {
		return false
	}
	switch x := v.(type) {
	case *ssa.Call:
		g := x.Call.StaticCallee()
		if g == nil || g.Name() != accessor {
			return false
		}
		return !c.cursorWriteBetween(fn, x, at, pkg, typ)
	case *ssa.Phi:
		if c.cursorWriteBetween(fn, x, at, pkg, typ) {
			return false
		}
		for i, e := range x.Edges {
			pred := x.Block().Preds[i]
			if deadEdge(pred, x.Block()) {
				continue // e.g. the exit edge of `for true`
			}
			if !c.noCursorWriteSince(fn, e, pred.Instrs[len(pred.Instrs)-1], accessor, pkg, typ, depth-1) {
				return false
			}
		}
		return true
	}
	return false
}

// paramNeverSatisfies: at every in-region call site of fn, argument #pi is provably different from `bad`
// ("" or nil), directly or by a dominating guard, or is again the caller's own parameter (recursion).
func (c *Ctx) paramNeverSatisfies(fn *ssa.Function, pi int, bad ssa.Value, depth int) (bool, string) {
	region := c.untrustedRegion()
	e := c.tagEngine()
	n := 0
	for _, ci := range e.callers[fn] {
		if !region[ci.Parent()] {
			continue
		}
		n++
		arg := ci.Common().Args[pi]
		ok := false
		if isNilConst(bad) {
			ok = c.certainlyNonNil(arg, guardsAt(ci.Block()), 4)
		} else if s, isS := constString(arg); isS && s != "" {
			ok = true
		} else if ss := c.stringsOf(regEvent{}, arg, 4); len(ss) > 0 {
			ok = true // an element of a literal list of constants, none of them empty
			for _, s := range ss {
				if s == "" {
					ok = false
				}
			}
		} else {
			for _, g := range guardsAt(ci.Block()) {
				cond, truth := g.atom()
				if bo, okb := cond.(*ssa.BinOp); okb && c.sameValue(bo.X, arg) {
					if s2, oks := constString(bo.Y); oks && s2 == "" && (bo.Op == token.NEQ) == truth {
						ok = true
					}
				}
			}
		}
		if ok {
			continue
		}
		if pj := paramIndex(ci.Parent(), arg); pj >= 0 && depth > 0 {
			if ok2, why := c.paramNeverSatisfies(ci.Parent(), pj, bad, depth-1); !ok2 {
				return false, why
			}
			continue
		}
		ex := c.newExpr(ci.Parent())
		return false, fmt.Sprintf("call site in %s (%s) passes %s, which is not known to differ from the value that triggers the panic", c.FuncKey(ci.Parent()), c.Pos(ci.Pos()), ex.str(arg))
	}
	return true, fmt.Sprintf("%d call site(s) of %s checked", n, fn.Name())
}

// deadEdge: pred ends in a branch on a constant and the edge to succ is the one never taken.
func deadEdge(pred, succ *ssa.BasicBlock) bool {
	ifi, ok := pred.Instrs[len(pred.Instrs)-1].(*ssa.If)
	if !ok {
		return false
	}
	k, ok := ifi.Cond.(*ssa.Const)
	if !ok || k.Value == nil || k.Value.Kind() != constant.Bool {
		return false
	}
	taken := pred.Succs[1]
	if constant.BoolVal(k.Value) {
		taken = pred.Succs[0]
	}
	return succ != taken && pred.Succs[0] != pred.Succs[1]
}
