package main

import (
	"fmt"
	"go/token"
	"go/types"
	"sort"
	"strings"

	"golang.org/x/tools/go/ssa"
)

// ---------------------------------------------------------------------------------------------
// CODEC — quote encode/decode pairs and their readers (C14, C09)
// ---------------------------------------------------------------------------------------------

type codecInfo struct {
	nt          *types.Named
	enc, dec    *ssa.Function
	reader      *ssa.Function
	encSeq      []string
	encDoubles  bool
	decGuardsOK bool
	decGuardWhy string
	decExpr     string
	decUndouble bool
	readerPeeks bool
}

func (c *Ctx) quoteStates() []*types.Named {
	ns := c.implsOf("tokenizers", "IQuoteState")
	sort.Slice(ns, func(i, j int) bool { return ns[i].Obj().Name() < ns[j].Obj().Name() })
	return ns
}

func (c *Ctx) codecOf(nt *types.Named) *codecInfo {
	ci := &codecInfo{nt: nt, enc: c.methodOf(nt, "EncodeString", false), dec: c.methodOf(nt, "DecodeString", false), reader: c.methodOf(nt, "NextToken", false)}
	if ci.enc == nil || ci.dec == nil || ci.reader == nil {
		panic(anchorError("quote state " + nt.Obj().Name() + " lacks Encode/Decode/NextToken"))
	}
	ex := c.newExpr(ci.enc)
	for _, b := range ci.enc.Blocks {
		for _, in := range b.Instrs {
			call, ok := in.(*ssa.Call)
			if !ok {
				continue
			}
			f := calleeObj(call.Common())
			if f == nil || f.Pkg() == nil || f.Pkg().Path() != "strings" || recvNamed(f) != "Builder" {
				continue
			}
			switch f.Name() {
			case "WriteRune", "WriteString":
				ci.encSeq = append(ci.encSeq, f.Name()+"("+ex.str(call.Call.Args[1])+")")
			}
		}
	}
	for _, s := range ci.encSeq {
		if strings.Contains(s, "strings.ReplaceAll") {
			ci.encDoubles = true
		}
	}
	// decoder
	dx := c.newExpr(ci.dec)
	for _, ret := range returnsOf(ci.dec) {
		for _, leaf := range phiLeaves(ret.Results[0]) {
			if leaf == ssa.Value(ci.dec.Params[1]) {
				continue
			}
			ci.decExpr = dx.str(leaf)
			if strings.HasPrefix(ci.decExpr, "strings.ReplaceAll") {
				ci.decUndouble = true
			}
			// guards on the decoded path
			var blk *ssa.BasicBlock
			if in, ok := leaf.(ssa.Instruction); ok {
				blk = in.Block()
			}
			if blk == nil {
				continue
			}
			lenOK, firstOK, lastOK := false, false, false
			isRunes := func(v ssa.Value) bool {
				cv, ok := v.(*ssa.Convert)
				return ok && cv.X == ssa.Value(ci.dec.Params[1])
			}
			for _, g := range guardsAt(blk) {
				cond, truth := g.atom()
				bo, ok := cond.(*ssa.BinOp)
				if !ok || !truth {
					continue
				}
				if call, ok := bo.X.(*ssa.Call); ok {
					if bi, ok := call.Call.Value.(*ssa.Builtin); ok && bi.Name() == "len" && isRunes(call.Call.Args[0]) {
						if k, isK := constInt(bo.Y); isK && ((bo.Op == token.GEQ && k == 2) || (bo.Op == token.GTR && k == 1)) {
							lenOK = true
						}
					}
				}
				if bo.Op == token.EQL && bo.Y == ssa.Value(ci.dec.Params[2]) {
					if ld, ok := bo.X.(*ssa.UnOp); ok {
						if ia, ok := ld.X.(*ssa.IndexAddr); ok && isRunes(ia.X) {
							if k, isK := constInt(ia.Index); isK && k == 0 {
								firstOK = true
							}
							if sub, ok := ia.Index.(*ssa.BinOp); ok && sub.Op == token.SUB {
								if k, isK := constInt(sub.Y); isK && k == 1 {
									if lc, ok := sub.X.(*ssa.Call); ok {
										if bi, ok := lc.Call.Value.(*ssa.Builtin); ok && bi.Name() == "len" && isRunes(lc.Call.Args[0]) {
											lastOK = true
										}
									}
								}
							}
						}
					}
				}
			}
			ci.decGuardsOK = lenOK && firstOK && lastOK
			ci.decGuardWhy = fmt.Sprintf("length>=2 %v, first==quote %v, last(len(runes)-1)==quote %v", lenOK, firstOK, lastOK)
		}
	}
	for _, ci2 := range allCalls(ci.reader) {
		if ci2.Common().IsInvoke() && ci2.Common().Method.Name() == "Peek" {
			ci.readerPeeks = true
		}
	}
	return ci
}

func init() {
	register(&Rule{ID: "CODEC.pair", Floor: 9,
		Doc: "per quote state: EncodeString writes quote + body + quote where body is the value itself or the value with every quote doubled; DecodeString strips exactly one leading and one trailing quote (only when the rune slice has at least two elements and both ends are the quote) and then un-doubles exactly when the encoder doubles — the two ReplaceAll calls are mirror images; both are pure functions",
		Run: ruleCodecPair})
	register(&Rule{ID: "CODEC.reader", Floor: 6,
		Doc: "a quote state's reader agrees with its encoder: if the encoder doubles embedded quotes, the reader ends a token at a quote only after peeking that the next character is not another quote (so a doubled quote is data and the encoded form is read back as one token); every reader ends only at the closing quote or at the end of input",
		Run: ruleCodecReader})
}

func ruleCodecPair(c *Ctx) []*Obligation {
	o := newObl("CODEC.pair")
	const Q = "conv<string>($2)"
	plainDec := "conv<string>(conv<[]rune>($1)[1:(len(conv<[]rune>($1)) - 1)])"
	for _, nt := range c.quoteStates() {
		ci := c.codecOf(nt)
		name := c.relPkg(nt.Obj().Pkg()) + "." + nt.Obj().Name()
		// encoder
		wantPlain := []string{"WriteRune($2)", "WriteString($1)", "WriteRune($2)"}
		wantDbl := []string{"WriteRune($2)", "WriteString(strings.ReplaceAll($1, " + Q + ", (" + Q + " + " + Q + ")))", "WriteRune($2)"}
		got := strings.Join(ci.encSeq, " ")
		keyE := name + "#encode"
		if got == strings.Join(wantPlain, " ") || got == strings.Join(wantDbl, " ") {
			o.ok(keyE, c.Pos(ci.enc.Pos()), got)
		} else {
			o.bad(keyE, c.Pos(ci.enc.Pos()), "EncodeString writes ["+got+"]; it must write the quote, the value (plain or with each quote doubled), the quote")
		}
		// decoder
		keyD := name + "#decode"
		wantDec := plainDec
		if ci.encDoubles {
			wantDec = "strings.ReplaceAll(" + plainDec + ", (" + Q + " + " + Q + "), " + Q + ")"
		}
		switch {
		case !ci.decGuardsOK:
			o.bad(keyD, c.Pos(ci.dec.Pos()), "the stripping branch of DecodeString is not guarded by: rune length >= 2, first rune == quote, last rune (index len(runes)-1) == quote ("+ci.decGuardWhy+"): decoding fails or strips wrongly on short, unterminated or non-ASCII input")
		case ci.decExpr != wantDec:
			o.bad(keyD, c.Pos(ci.dec.Pos()), fmt.Sprintf("DecodeString computes %s; the inverse of this state's encoder is %s (strip one quote on each side, then un-double iff the encoder doubles)", ci.decExpr, wantDec))
		default:
			o.ok(keyD, c.Pos(ci.dec.Pos()), ci.decExpr)
		}
		// purity
		keyP := name + "#codec-pure"
		e := c.newEffectEngine([]*ssa.Function{ci.enc, ci.dec})
		ws := e.sharedWrites()
		if len(ws) == 0 {
			o.ok(keyP, c.Pos(ci.enc.Pos()), "Encode/Decode write no shared state")
		} else {
			o.bad(keyP, c.Pos(ws[0].pos), "the codec writes "+ws[0].what+": its result depends on earlier calls (one state object serves several quote characters)")
		}
	}
	return o.list
}

func ruleCodecReader(c *Ctx) []*Obligation {
	o := newObl("CODEC.reader")
	res := c.scanResults()
	for _, nt := range c.quoteStates() {
		ci := c.codecOf(nt)
		name := c.relPkg(nt.Obj().Pkg()) + "." + nt.Obj().Name()
		x := res[ci.reader]
		if x == nil {
			x = c.runScanExec(ci.reader)
		}
		keyA := name + "#reader-matches-encoder"
		if ci.encDoubles != ci.decUndouble {
			o.bad(keyA, c.Pos(ci.dec.Pos()), fmt.Sprintf("the encoder doubles quotes: %v, the decoder un-doubles: %v", ci.encDoubles, ci.decUndouble))
		} else {
			o.ok(keyA, c.Pos(ci.dec.Pos()), fmt.Sprintf("encoder doubles: %v, decoder un-doubles: %v", ci.encDoubles, ci.decUndouble))
		}
		keyR := name + "#token-ends-at-closing-quote"
		bad := ""
		n := 0
		for _, oc := range x.outcomes {
			if !oc.isTok {
				continue
			}
			n++
			switch {
			case oc.endsAtEOF:
			case oc.nConsumed < 2:
				bad = "a token can end right after its opening quote without reading further"
			case !oc.lastSameAsFirst:
				bad = "a token can end at a character that is not known to equal the opening quote"
			case ci.encDoubles && !oc.peekedDifferent:
				bad = "the encoder doubles embedded quotes, but the reader can end the token at a quote without having peeked that the following character is not another quote: the encoding of a text that begins or continues with a quote is split into several tokens"
			}
		}
		if n == 0 {
			bad = "no token-returning path"
		}
		if bad != "" {
			o.bad(keyR, c.Pos(ci.reader.Pos()), bad)
		} else {
			o.ok(keyR, c.Pos(ci.reader.Pos()), fmt.Sprintf("%d path(s): the token ends at end of input or at a quote equal to the opening one%s", n, map[bool]string{true: " that is not followed by another quote", false: ""}[ci.encDoubles]))
		}
	}
	return o.list
}
