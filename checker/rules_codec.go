package main

import (
	"fmt"
	"go/types"
	"sort"
	"strings"

	"golang.org/x/tools/go/ssa"
)

// ---------------------------------------------------------------------------------------------
// CODEC — quote encode/decode pairs and their readers (C14, C09)
// ---------------------------------------------------------------------------------------------

type codecInfo struct {
	nt          *types.Named
	enc, dec    *ssa.Function
	reader      *ssa.Function
	encExpr     string // canonical encoder result, "" if undecided
	encWhy      string
	encDoubles  bool
	decBad      string // first scenario whose result deviates
	decWhy      string // undecided reason
	decUndouble bool
	decRuns     int
	readerPeeks bool
}

func (c *Ctx) quoteStates() []*types.Named {
	ns := c.implsOf("tokenizers", "IQuoteState")
	sort.Slice(ns, func(i, j int) bool { return ns[i].Obj().Name() < ns[j].Obj().Name() })
	return ns
}

// codecHooks: meaning of the string operations the codecs use, over symbolic strings.
func (c *Ctx) codecHooks(ai *absInterp, builder *[]aiVal) {
	ai.cmp = func(a, b aiVal) (bool, bool) {
		if a.kind == "sym" && b.kind == "sym" {
			return a.s == b.s, true
		}
		return false, false
	}
	ai.inline = func(g *ssa.Function) bool { return true }
	ai.call = func(ai *absInterp, call *ssa.Call) (aiVal, bool) {
		cc := call.Common()
		f := calleeObj(cc)
		if f == nil || f.Pkg() == nil || f.Pkg().Path() != "strings" {
			return aiVal{}, false
		}
		if recvNamed(f) == "Builder" {
			switch f.Name() {
			case "WriteRune", "WriteString":
				*builder = append(*builder, ai.get(cc.Args[1]))
				return aiUnknown(), true
			case "String":
				return aiCat(*builder...), true
			}
			return aiVal{}, false
		}
		if f.Name() == "ReplaceAll" && len(cc.Args) == 3 {
			return aiSym("replaceAll(" + aiRender(ai.get(cc.Args[0])) + "," + aiRender(ai.get(cc.Args[1])) + "," + aiRender(ai.get(cc.Args[2])) + ")"), true
		}
		return aiVal{}, false
	}
}

func (c *Ctx) codecOf(nt *types.Named) *codecInfo {
	ci := &codecInfo{nt: nt, enc: c.methodOf(nt, "EncodeString", false), dec: c.methodOf(nt, "DecodeString", false), reader: c.methodOf(nt, "NextToken", false)}
	if ci.enc == nil || ci.dec == nil || ci.reader == nil {
		panic(anchorError("quote state " + nt.Obj().Name() + " lacks Encode/Decode/NextToken"))
	}
	// encoder: one abstract run over a symbolic value and quote
	{
		var builder []aiVal
		ai := &absInterp{c: c, fn: ci.enc, env: map[ssa.Value]aiVal{}}
		ai.env[ci.enc.Params[1]] = aiSym("value")
		ai.env[ci.enc.Params[2]] = aiSym("q")
		c.codecHooks(ai, &builder)
		out := ai.run(ci.enc.Blocks[0], nil, 0)
		switch {
		case out.kind != "return" || len(out.ret) != 1:
			ci.encWhy = "EncodeString: " + out.why
		default:
			ci.encExpr = aiRender(out.ret[0])
			ci.encDoubles = strings.Contains(ci.encExpr, "replaceAll(")
		}
	}
	// decoder: abstract runs over texts of 0..4 runes whose first / last rune is or is not the quote
	for n := 0; n <= 4; n++ {
		for _, firstQ := range []bool{false, true} {
			for _, lastQ := range []bool{false, true} {
				if n == 0 && (firstQ || lastQ) {
					continue
				}
				if n == 1 && firstQ != lastQ {
					continue
				}
				ci.decRuns++
				runes := aiVal{kind: "list"}
				for i := 0; i < n; i++ {
					e := aiSym(fmt.Sprintf("c%d", i))
					if (i == 0 && firstQ) || (i == n-1 && lastQ) {
						e = aiSym("q")
					}
					runes.tup = append(runes.tup, e)
				}
				var builder []aiVal
				ai := &absInterp{c: c, fn: ci.dec, env: map[ssa.Value]aiVal{}}
				ai.env[ci.dec.Params[1]] = aiSym("value")
				ai.env[ci.dec.Params[2]] = aiSym("q")
				c.codecHooks(ai, &builder)
				ai.conv = func(ai *absInterp, cv *ssa.Convert) (aiVal, bool) {
					x := ai.get(cv.X)
					_, toSlice := cv.Type().Underlying().(*types.Slice)
					switch {
					case toSlice && x.kind == "sym" && x.s == "value":
						return runes, true // []rune(value)
					case x.kind == "list":
						return aiSym("str" + aiRender(x)), true // string(runes[a:b])
					}
					return aiVal{}, false
				}
				out := ai.run(ci.dec.Blocks[0], nil, 0)
				ctx := fmt.Sprintf("[a text of %d rune(s), first is the quote: %v, last is the quote: %v]", n, firstQ, lastQ)
				strip := n >= 2 && firstQ && lastQ
				want := "value"
				if strip {
					inner := aiVal{kind: "list", tup: runes.tup[1 : n-1]}
					want = "str" + aiRender(inner)
					if ci.encDoubles {
						want = "replaceAll(" + want + ",q+q,q)"
					}
				}
				switch {
				case out.kind == "panic":
					if ci.decBad == "" {
						ci.decBad = "DecodeString panics (" + out.why + ") " + ctx + ": decoding is not total"
					}
				case out.kind != "return" || len(out.ret) != 1:
					ci.decWhy = "DecodeString: " + out.why + " " + ctx
				default:
					got := aiRender(out.ret[0])
					if strip && strings.Contains(got, "replaceAll(") {
						ci.decUndouble = true
					}
					if ci.encWhy != "" && strip && strings.HasPrefix(got, "replaceAll(") && strings.HasSuffix(got, ",q+q,q)") {
						// the encoder's form is undecided: only the stripping is judged here
						got = strings.TrimSuffix(strings.TrimPrefix(got, "replaceAll("), ",q+q,q)")
					}
					if got != want && ci.decBad == "" {
						ci.decBad = fmt.Sprintf("DecodeString returns %s, the inverse of this state's encoder gives %s %s (strip exactly one quote on each side only when both are present, then un-double iff the encoder doubles)", got, want, ctx)
					}
				}
			}
		}
	}
	for _, ci2 := range allCalls(ci.reader) {
		if ci2.Common().IsInvoke() && ci2.Common().Method.Name() == "Peek" {
			ci.readerPeeks = true
		}
	}
	return ci
}

func init() {
	register(&Rule{ID: "CODEC.pair", Floor: 9,
		Doc: "per quote state: EncodeString writes quote + body + quote where body is the value itself or the value with every quote doubled; DecodeString strips exactly one leading and one trailing quote (only when the rune slice has at least two elements and both ends are the quote) and then un-doubles exactly when the encoder doubles — the two ReplaceAll calls are mirror images; both are pure functions",
		Run: ruleCodecPair})
	register(&Rule{ID: "CODEC.reader", Floor: 6,
		Doc: "a quote state's reader agrees with its encoder: if the encoder doubles embedded quotes, the reader ends a token at a quote only after peeking that the next character is not another quote (so a doubled quote is data and the encoded form is read back as one token); every reader ends only at the closing quote or at the end of input",
		Run: ruleCodecReader})
}

func ruleCodecPair(c *Ctx) []*Obligation {
	o := newObl("CODEC.pair")
	for _, nt := range c.quoteStates() {
		ci := c.codecOf(nt)
		name := c.relPkg(nt.Obj().Pkg()) + "." + nt.Obj().Name()
		// encoder
		keyE := name + "#encode"
		switch {
		case ci.encWhy != "":
			o.undecided(keyE, c.Pos(ci.enc.Pos()), ci.encWhy)
		case ci.encExpr == "q+value+q" || ci.encExpr == "q+replaceAll(value,q,q+q)+q":
			o.ok(keyE, c.Pos(ci.enc.Pos()), ci.encExpr)
		default:
			o.bad(keyE, c.Pos(ci.enc.Pos()), "EncodeString returns "+ci.encExpr+"; it must be the quote, the value (plain or with each quote doubled), the quote")
		}
		// decoder
		keyD := name + "#decode"
		switch {
		case ci.encWhy != "" && ci.decBad == "":
			o.undecided(keyD, c.Pos(ci.dec.Pos()), "the encoder's form is not decided, so its inverse is not known")
		case ci.decBad != "":
			o.bad(keyD, c.Pos(ci.dec.Pos()), ci.decBad)
		case ci.decWhy != "":
			o.undecided(keyD, c.Pos(ci.dec.Pos()), ci.decWhy)
		default:
			o.ok(keyD, c.Pos(ci.dec.Pos()), fmt.Sprintf("%d abstract run(s): strips one quote on each side exactly when the text has at least two runes and both ends are the quote, then un-doubles: %v", ci.decRuns, ci.decUndouble))
		}
		// purity
		keyP := name + "#codec-pure"
		e := c.newEffectEngine([]*ssa.Function{ci.enc, ci.dec})
		ws := e.sharedWrites()
		if len(ws) == 0 {
			o.ok(keyP, c.Pos(ci.enc.Pos()), "Encode/Decode write no shared state")
		} else {
			o.bad(keyP, c.Pos(ws[0].pos), "the codec writes "+ws[0].what+": its result depends on earlier calls (one state object serves several quote characters)")
		}
	}
	return o.list
}

func ruleCodecReader(c *Ctx) []*Obligation {
	o := newObl("CODEC.reader")
	res := c.scanResults()
	for _, nt := range c.quoteStates() {
		ci := c.codecOf(nt)
		name := c.relPkg(nt.Obj().Pkg()) + "." + nt.Obj().Name()
		x := res[ci.reader]
		if x == nil {
			x = c.runScanExec(ci.reader)
		}
		keyA := name + "#reader-matches-encoder"
		if ci.encWhy != "" {
			o.undecided(keyA, c.Pos(ci.enc.Pos()), ci.encWhy)
		} else if ci.encDoubles != ci.decUndouble {
			o.bad(keyA, c.Pos(ci.dec.Pos()), fmt.Sprintf("the encoder doubles quotes: %v, the decoder un-doubles: %v", ci.encDoubles, ci.decUndouble))
		} else {
			o.ok(keyA, c.Pos(ci.dec.Pos()), fmt.Sprintf("encoder doubles: %v, decoder un-doubles: %v", ci.encDoubles, ci.decUndouble))
		}
		keyR := name + "#token-ends-at-closing-quote"
		bad := ""
		n := 0
		for _, oc := range x.outcomes {
			if !oc.isTok {
				continue
			}
			n++
			switch {
			case oc.endsAtEOF:
			case oc.nConsumed < 2:
				bad = "a token can end right after its opening quote without reading further"
			case !oc.lastSameAsFirst:
				bad = "a token can end at a character that is not known to equal the opening quote"
			case ci.encDoubles && !oc.peekedDifferent:
				bad = "the encoder doubles embedded quotes, but the reader can end the token at a quote without having peeked that the following character is not another quote: the encoding of a text that begins or continues with a quote is split into several tokens"
			}
		}
		if n == 0 {
			bad = "no token-returning path"
		}
		if bad != "" {
			o.bad(keyR, c.Pos(ci.reader.Pos()), bad)
		} else {
			o.ok(keyR, c.Pos(ci.reader.Pos()), fmt.Sprintf("%d path(s): the token ends at end of input or at a quote equal to the opening one%s", n, map[bool]string{true: " that is not followed by another quote", false: ""}[ci.encDoubles]))
		}
	}
	return o.list
}
