package main

import (
	"fmt"
	"go/constant"
	"go/token"
	"sort"
	"strings"

	"golang.org/x/tools/go/ssa"
)

// ---------------------------------------------------------------------------------------------
// CUR — StringScanner (C11)
// ---------------------------------------------------------------------------------------------

const pkgIO = "io"

// constFold evaluates a pure function whose control flow and result depend on its integer/rune
// parameters only through comparisons and arithmetic with constants: constant folding of the SSA
// for one choice of representative arguments. Calls, loads and stores make it fail.
func constFold(fn *ssa.Function, args []int64) (val int64, isBool bool, ok bool) {
	env := map[ssa.Value]int64{}
	// receiver (if any) is ignored
	pi := 0
	for _, p := range fn.Params {
		if fn.Signature.Recv() != nil && p == fn.Params[0] {
			continue
		}
		if pi < len(args) {
			env[p] = args[pi]
		}
		pi++
	}
	get := func(v ssa.Value) (int64, bool) {
		if k, ok := v.(*ssa.Const); ok && k.Value != nil {
			switch k.Value.Kind() {
			case constant.Int:
				n, _ := constant.Int64Val(k.Value)
				return n, true
			case constant.Bool:
				if constant.BoolVal(k.Value) {
					return 1, true
				}
				return 0, true
			}
		}
		n, ok := env[v]
		return n, ok
	}
	cur := fn.Blocks[0]
	var pred *ssa.BasicBlock
	for steps := 0; steps < 200; steps++ {
		var next *ssa.BasicBlock
		for _, in := range cur.Instrs {
			switch t := in.(type) {
			case *ssa.Phi:
				for i, p := range cur.Preds {
					if p == pred {
						if n, ok := get(t.Edges[i]); ok {
							env[t] = n
						} else {
							return 0, false, false
						}
					}
				}
			case *ssa.BinOp:
				l, ok1 := get(t.X)
				r, ok2 := get(t.Y)
				if !ok1 || !ok2 {
					return 0, false, false
				}
				b := func(c bool) int64 {
					if c {
						return 1
					}
					return 0
				}
				switch t.Op {
				case token.EQL:
					env[t] = b(l == r)
				case token.NEQ:
					env[t] = b(l != r)
				case token.LSS:
					env[t] = b(l < r)
				case token.LEQ:
					env[t] = b(l <= r)
				case token.GTR:
					env[t] = b(l > r)
				case token.GEQ:
					env[t] = b(l >= r)
				case token.ADD:
					env[t] = l + r
				case token.SUB:
					env[t] = l - r
				default:
					return 0, false, false
				}
			case *ssa.UnOp:
				x, ok := get(t.X)
				if !ok || t.Op != token.NOT {
					return 0, false, false
				}
				env[t] = 1 - x
			case *ssa.If:
				cnd, ok := get(t.Cond)
				if !ok {
					return 0, false, false
				}
				if cnd != 0 {
					next = cur.Succs[0]
				} else {
					next = cur.Succs[1]
				}
			case *ssa.Jump:
				next = cur.Succs[0]
			case *ssa.Return:
				if len(t.Results) != 1 {
					return 0, false, false
				}
				n, ok := get(t.Results[0])
				return n, isBoolType(t.Results[0].Type()), ok
			case *ssa.DebugRef:
			default:
				return 0, false, false
			}
		}
		if next == nil {
			return 0, false, false
		}
		pred, cur = cur, next
	}
	return 0, false, false
}

func init() {
	register(&Rule{ID: "CUR.linerule", Floor: 5,
		Doc: "line-break rule as an extracted truth table over the partition {LF, CR, end-of-input, other}³ (constant folding of the comparisons): LF always breaks, CR breaks unless adjacent to LF, nothing else does; LF/CR occupy no column; the character validators answer IsEof/IsEol/IsDigit by their definition",
		Run: ruleCurLineRule})
	register(&Rule{ID: "CUR.range", Floor: 4,
		Doc: "every store to the cursor position keeps it within [-1, len]: the constant -1 (constructor, Reset), position+1 only where position+1 <= len was tested, position-1 only where position >= 0 was tested",
		Run: ruleCurRange})
	register(&Rule{ID: "CUR.pure", Floor: 8,
		Doc: "Peek, PeekLine, PeekColumn, Line, Column and the helpers they use store to no field (peeks never move the cursor)",
		Run: ruleCurPure})
	register(&Rule{ID: "CUR.siblings", Floor: 5,
		Doc: "Read, PeekLine, PeekColumn, Unread and the recomputation loop classify a position with the same window (before, at, after) = three consecutive offsets, test the column of the middle character, and the sliding window of the loop advances each variable from its right neighbour; peeks return the current coordinates once the end-of-input slot is consumed; Read performs the update for every position it enters, the end-of-input slot included",
		Run: ruleCurSiblings})
	register(&Rule{ID: "CUR.unread", Floor: 5,
		Doc: "Unread changes line/column only in ways that are functions of the content: one column back when the character put back occupies a column, nothing when it is a CR glued to an LF, a full recomputation (line and column both reset, then replayed up to the new position) otherwise; UnreadMany(n) is n × Unread; Reset restores the constructor's state",
		Run: ruleCurUnread})
}

func ruleCurLineRule(c *Ctx) []*Obligation {
	o := newObl("CUR.linerule")
	const LF, CR, EOF, OTHER = 10, 13, -1, 'a'
	reps := []int64{LF, CR, EOF, OTHER}
	name := map[int64]string{LF: "LF", CR: "CR", EOF: "EOF", OTHER: "x"}
	isLine := c.MustFunc(pkgIO, "StringScanner", "isLine")
	isCol := c.MustFunc(pkgIO, "StringScanner", "isColumn")
	bad, n := "", 0
	for _, b := range reps {
		for _, a := range reps {
			for _, f := range reps {
				n++
				got, _, ok := constFold(isLine, []int64{b, a, f})
				if !ok {
					bad = "isLine is not a comparison-only function of its three characters"
					continue
				}
				want := a == LF || (a == CR && b != LF && f != LF)
				if (got != 0) != want {
					bad = fmt.Sprintf("isLine(before=%s, at=%s, after=%s) = %v, the rule says %v", name[b], name[a], name[f], got != 0, want)
				}
			}
		}
	}
	key := c.FuncKey(isLine) + "#truth-table"
	if bad != "" {
		o.bad(key, c.Pos(isLine.Pos()), bad+" (LF always breaks a line; CR does unless an LF is directly before or after it; nothing else does)")
	} else {
		o.ok(key, c.Pos(isLine.Pos()), fmt.Sprintf("%d-row truth table equals the line-break rule", n))
	}
	bad = ""
	for _, a := range reps {
		got, _, ok := constFold(isCol, []int64{a})
		if !ok {
			bad = "isColumn is not a comparison-only function of its character"
			continue
		}
		want := a != LF && a != CR
		if (got != 0) != want {
			bad = fmt.Sprintf("isColumn(%s) = %v, expected %v", name[a], got != 0, want)
		}
	}
	key = c.FuncKey(isCol) + "#truth-table"
	o.check(bad == "", key, c.Pos(isCol.Pos()), "LF and CR occupy no column, every other position (the end-of-input slot included) occupies one", bad)
	// CharValidator
	probes := []int64{-1, 0, 9, 10, 11, 13, 14, '/', '0', '5', '9', ':', 'a', 0x100, 0xffff}
	for _, v := range []struct {
		name string
		want func(int64) bool
	}{
		{"IsEof", func(x int64) bool { return x == -1 }},
		{"IsEol", func(x int64) bool { return x == 10 || x == 13 }},
		{"IsDigit", func(x int64) bool { return x >= '0' && x <= '9' }},
	} {
		fn := c.MustFunc(pkgUtil, "_TCharValidator", v.name)
		bad := ""
		for _, p := range probes {
			got, _, ok := constFold(fn, []int64{p})
			if !ok {
				bad = v.name + " is not a comparison-only function"
				break
			}
			if (got != 0) != v.want(p) {
				bad = fmt.Sprintf("%s(%d) = %v", v.name, p, got != 0)
			}
		}
		o.check(bad == "", c.FuncKey(fn)+"#truth-table", c.Pos(fn.Pos()), fmt.Sprintf("%d boundary probes agree with the definition", len(probes)), bad+": the tokenizer states' end-of-input / end-of-line / digit tests rely on this definition")
	}
	return o.list
}

func isFieldLoad(v ssa.Value, field string) bool {
	ld, ok := v.(*ssa.UnOp)
	if !ok || ld.Op != token.MUL {
		return false
	}
	fa, ok := ld.X.(*ssa.FieldAddr)
	return ok && fieldName(fa.X.Type(), fa.Field) == field
}

func isLenOfField(v ssa.Value, field string) bool {
	call, ok := v.(*ssa.Call)
	if !ok {
		return false
	}
	bi, ok := call.Call.Value.(*ssa.Builtin)
	return ok && bi.Name() == "len" && isFieldLoad(call.Call.Args[0], field)
}

func ruleCurRange(c *Ctx) []*Obligation {
	o := newObl("CUR.range")
	var fns []*ssa.Function
	fns = append(fns, c.methodsOfType(pkgIO, "StringScanner")...)
	fns = append(fns, c.MustFunc(pkgIO, "", "NewStringScanner"))
	for _, fn := range fns {
		n := 0
		for _, b := range fn.Blocks {
			for _, in := range b.Instrs {
				st, ok := in.(*ssa.Store)
				if !ok {
					continue
				}
				fa, ok := st.Addr.(*ssa.FieldAddr)
				if !ok || fieldName(fa.X.Type(), fa.Field) != "position" {
					continue
				}
				n++
				key := fmt.Sprintf("%s#store-position#%d", c.FuncKey(fn), n)
				if k, isK := constInt(st.Val); isK {
					o.check(k == -1, key, c.Pos(st.Pos()), "position := -1 (start)", fmt.Sprintf("position := %d is outside the start state", k))
					continue
				}
				bo, ok := st.Val.(*ssa.BinOp)
				if !ok || !isFieldLoad(bo.X, "position") {
					o.bad(key, c.Pos(st.Pos()), "the cursor is assigned a value that is not position±1 or -1")
					continue
				}
				k, _ := constInt(bo.Y)
				good := false
				switch {
				case bo.Op == token.ADD && k == 1:
					for _, g := range guardsAt(b) {
						cond, truth := g.atom()
						cb, ok := cond.(*ssa.BinOp)
						if !ok {
							continue
						}
						op := cb.Op
						if !truth {
							op = negateOp(op)
						}
						// position+1 <= len(content)  |  position < len(content)
						if add, ok := cb.X.(*ssa.BinOp); ok && add.Op == token.ADD && isFieldLoad(add.X, "position") {
							if k1, _ := constInt(add.Y); k1 == 1 && isLenOfField(cb.Y, "content") && op == token.LEQ {
								good = true
							}
						}
						if isFieldLoad(cb.X, "position") && isLenOfField(cb.Y, "content") && op == token.LSS {
							good = true
						}
					}
					o.check(good, key, c.Pos(st.Pos()), "position+1 stored only where position+1 <= len(content) was tested: the cursor enters the end-of-input slot once and stays there", "the cursor is advanced without the test position+1 <= len(content): reading at the end of input keeps moving the cursor past the end-of-input slot, and later unreads no longer return to the content")
				case bo.Op == token.SUB && k == 1:
					for _, g := range guardsAt(b) {
						cond, truth := g.atom()
						cb, ok := cond.(*ssa.BinOp)
						if !ok || !isFieldLoad(cb.X, "position") {
							continue
						}
						op := cb.Op
						if !truth {
							op = negateOp(op)
						}
						kk, isK := constInt(cb.Y)
						if isK && ((op == token.GEQ && kk == 0) || (op == token.GTR && kk == -1)) {
							good = true
						}
					}
					o.check(good, key, c.Pos(st.Pos()), "position-1 stored only where position >= 0 was tested: unread at the start is a no-op", "the cursor is moved back without the test position >= 0: an unread at the start moves it to -2 and the next read returns end of input instead of the first character")
				default:
					o.bad(key, c.Pos(st.Pos()), "the cursor moves by something other than one position")
				}
			}
		}
	}
	return o.list
}

func ruleCurPure(c *Ctx) []*Obligation {
	o := newObl("CUR.pure")
	for _, name := range []string{"Peek", "PeekLine", "PeekColumn", "Line", "Column", "charAt", "isLine", "isColumn"} {
		fn := c.MustFunc(pkgIO, "StringScanner", name)
		key := c.FuncKey(fn) + "#no-store"
		bad := ""
		seen := map[*ssa.Function]bool{}
		var walk func(f *ssa.Function)
		walk = func(f *ssa.Function) {
			if seen[f] || f.Blocks == nil {
				return
			}
			seen[f] = true
			for _, b := range f.Blocks {
				for _, in := range b.Instrs {
					switch x := in.(type) {
					case *ssa.Store:
						if fa, ok := x.Addr.(*ssa.FieldAddr); ok {
							bad = f.Name() + " stores to field " + fieldName(fa.X.Type(), fa.Field)
						} else if _, isAlloc := x.Addr.(*ssa.Alloc); !isAlloc {
							bad = f.Name() + " stores through a pointer"
						}
					case *ssa.MapUpdate:
						bad = f.Name() + " updates a map"
					case ssa.CallInstruction:
						if g := x.Common().StaticCallee(); g != nil && c.InModule(g) {
							walk(g)
						}
					}
				}
			}
		}
		walk(fn)
		o.check(bad == "", key, c.Pos(fn.Pos()), "reads only", bad+": a peek/accessor must not move the cursor or change the coordinates")
	}
	return o.list
}

// positionOffset: v == position + k (loads of the field).
func positionOffset(v ssa.Value) (int64, bool) {
	if isFieldLoad(v, "position") {
		return 0, true
	}
	if bo, ok := v.(*ssa.BinOp); ok && isFieldLoad(bo.X, "position") {
		if k, isK := constInt(bo.Y); isK {
			if bo.Op == token.ADD {
				return k, true
			}
			if bo.Op == token.SUB {
				return -k, true
			}
		}
	}
	return 0, false
}

func ruleCurSiblings(c *Ctx) []*Obligation {
	o := newObl("CUR.siblings")
	charAt := c.MustFunc(pkgIO, "StringScanner", "charAt")
	isLine := c.MustFunc(pkgIO, "StringScanner", "isLine")
	isCol := c.MustFunc(pkgIO, "StringScanner", "isColumn")
	offsetOfChar := func(v ssa.Value) (int64, bool) {
		call, ok := v.(*ssa.Call)
		if !ok || call.Call.StaticCallee() != charAt {
			return 0, false
		}
		return positionOffset(call.Call.Args[1])
	}
	// expected window start relative to the position field at the time of the load
	want := map[string]int64{"Read": -1, "PeekLine": 0, "PeekColumn": 0}
	for _, name := range []string{"Read", "PeekLine", "PeekColumn"} {
		fn := c.MustFunc(pkgIO, "StringScanner", name)
		key := c.FuncKey(fn) + "#window"
		bad := ""
		nLine := 0
		var mid ssa.Value
		for _, ci := range allCalls(fn) {
			if ci.Common().StaticCallee() == isLine {
				nLine++
				a := ci.Common().Args
				k1, ok1 := offsetOfChar(a[1])
				k2, ok2 := offsetOfChar(a[2])
				k3, ok3 := offsetOfChar(a[3])
				if !ok1 || !ok2 || !ok3 {
					bad = "the line test is not applied to charAt(position+k) characters"
					continue
				}
				if k2 != k1+1 || k3 != k2+1 {
					bad = fmt.Sprintf("the line test looks at offsets (%d,%d,%d), not three consecutive characters", k1, k2, k3)
				}
				if k1 != want[name] {
					bad = fmt.Sprintf("the window starts at position%+d, expected position%+d: the coordinates of a different character are reported", k1, want[name])
				}
				mid = a[2]
			}
		}
		for _, ci := range allCalls(fn) {
			if ci.Common().StaticCallee() == isCol && mid != nil && ci.Common().Args[1] != mid {
				if k, ok := offsetOfChar(ci.Common().Args[1]); !ok || func() bool { km, _ := offsetOfChar(mid); return k != km }() {
					bad = "the column test is applied to a different character than the line test"
				}
			}
		}
		if nLine != 1 {
			bad = fmt.Sprintf("%d line tests found, expected 1", nLine)
		}
		o.check(bad == "", key, c.Pos(fn.Pos()), "isLine(before, at, after) on consecutive characters around the position being entered; isColumn on the same middle character", bad)
	}
	// Read updates for every position it enters: no return between the position store and the update
	read := c.MustFunc(pkgIO, "StringScanner", "Read")
	{
		key := c.FuncKey(read) + "#slot-counted"
		var store ssa.Instruction
		for _, b := range read.Blocks {
			for _, in := range b.Instrs {
				if st, ok := in.(*ssa.Store); ok {
					if fa, ok := st.Addr.(*ssa.FieldAddr); ok && fieldName(fa.X.Type(), fa.Field) == "position" {
						store = st
					}
				}
			}
		}
		bad := ""
		if store == nil {
			bad = "Read does not move the cursor"
		} else {
			for _, ret := range returnsOf(read) {
				if !instrDominates(store, ret) {
					continue
				}
				passes := false
				for _, ci := range allCalls(read) {
					if ci.Common().StaticCallee() == isLine && instrDominates(store, ci) && instrDominates(ci, ret) {
						passes = true
					}
				}
				if !passes {
					bad = "Read returns after moving the cursor without updating line/column (the end-of-input slot is entered uncounted, while the peeks and the recomputation count it)"
				}
			}
		}
		o.check(bad == "", key, c.Pos(read.Pos()), "every return after the cursor moved passes the line/column update", bad)
	}
	// peeks inside the end-of-input slot return the current coordinates
	for _, spec := range []struct{ name, field string }{{"PeekLine", "line"}, {"PeekColumn", "column"}} {
		fn := c.MustFunc(pkgIO, "StringScanner", spec.name)
		key := c.FuncKey(fn) + "#in-slot"
		good := false
		for _, ret := range returnsOf(fn) {
			if !isFieldLoad(ret.Results[0], spec.field) {
				continue
			}
			for _, g := range guardsAt(ret.Block()) {
				cond, truth := g.atom()
				cb, ok := cond.(*ssa.BinOp)
				if !ok {
					continue
				}
				op := cb.Op
				if !truth {
					op = negateOp(op)
				}
				if add, ok := cb.X.(*ssa.BinOp); ok && add.Op == token.ADD && isFieldLoad(add.X, "position") && isLenOfField(cb.Y, "content") && op == token.GTR {
					good = true
				}
				if isFieldLoad(cb.X, "position") && isLenOfField(cb.Y, "content") && op == token.GEQ {
					good = true
				}
			}
		}
		o.check(good, key, c.Pos(fn.Pos()), "returns the current "+spec.field+" when position+1 > len(content) (the next read does not move)", spec.name+" keeps adding a position after the end-of-input slot was consumed: the peeked coordinates differ from those reported after the next read")
	}
	// recomputation loop: sliding window
	unread := c.MustFunc(pkgIO, "StringScanner", "Unread")
	{
		key := c.FuncKey(unread) + "#recompute-window"
		bad := "recomputation loop not found"
		for _, ci := range allCalls(unread) {
			if ci.Common().StaticCallee() != isLine {
				continue
			}
			a := ci.Common().Args
			pb, okb := a[1].(*ssa.Phi)
			pa, oka := a[2].(*ssa.Phi)
			if !okb || !oka {
				continue
			}
			bad = ""
			// before' = at, at' = after (the value passed as third argument), after = charAt(idx+1)
			backEdge := func(p *ssa.Phi) ssa.Value {
				for i, e := range p.Edges {
					if p.Block().Dominates(p.Block().Preds[i]) {
						return e
					}
				}
				return nil
			}
			if backEdge(pb) != ssa.Value(pa) {
				bad = "in the recomputation loop `before` is not advanced from `at`: the window is skewed and a CR next to an LF is classified differently than by Read"
			}
			if backEdge(pa) != a[3] {
				bad = "in the recomputation loop `at` is not advanced from `after`"
			}
			if call, ok := a[3].(*ssa.Call); !ok || call.Call.StaticCallee() != charAt {
				bad = "`after` is not read from the content"
			}
			// column test on `at`
			for _, cj := range allCalls(unread) {
				if cj.Common().StaticCallee() == isCol && cj.Block().Parent() == unread && pa.Block().Dominates(cj.Block()) && cj.Common().Args[1] != ssa.Value(pa) {
					if _, isPhi := cj.Common().Args[1].(*ssa.Phi); isPhi {
						bad = "the recomputation tests the column of a different character than the line test"
					}
				}
			}
		}
		o.check(bad == "", key, c.Pos(unread.Pos()), "window slides (before ← at ← after ← charAt(i+1)); column test on `at`", bad)
	}
	return o.list
}

func ruleCurUnread(c *Ctx) []*Obligation {
	o := newObl("CUR.unread")
	fn := c.MustFunc(pkgIO, "StringScanner", "Unread")
	charAt := c.MustFunc(pkgIO, "StringScanner", "charAt")
	isLine := c.MustFunc(pkgIO, "StringScanner", "isLine")
	isCol := c.MustFunc(pkgIO, "StringScanner", "isColumn")
	// the character being put back: charAt(position) loaded before the decrement
	var posStore ssa.Instruction
	for _, b := range fn.Blocks {
		for _, in := range b.Instrs {
			if st, ok := in.(*ssa.Store); ok {
				if fa, ok := st.Addr.(*ssa.FieldAddr); ok && fieldName(fa.X.Type(), fa.Field) == "position" {
					posStore = st
				}
			}
		}
	}
	if posStore == nil {
		o.bad(c.FuncKey(fn)+"#paths", c.Pos(fn.Pos()), "Unread does not move the cursor")
		return o.list
	}
	unreadChar := func(v ssa.Value, off int64) bool {
		call, ok := v.(*ssa.Call)
		if !ok || call.Call.StaticCallee() != charAt || !instrDominates(call, posStore) {
			return false
		}
		k, ok := positionOffset(call.Call.Args[1])
		return ok && k == off
	}
	// enumerate acyclic paths from the position store to each return; classify the stores to line/column
	type pathInfo struct {
		stores []string
		guards []string
		ret    *ssa.Return
	}
	var paths []pathInfo
	var walk func(b *ssa.BasicBlock, startIdx int, stores, guards []string, seen map[*ssa.BasicBlock]bool)
	walk = func(b *ssa.BasicBlock, startIdx int, stores, guards []string, seen map[*ssa.BasicBlock]bool) {
		if seen[b] {
			return
		}
		seen[b] = true
		defer delete(seen, b)
		for _, in := range b.Instrs[startIdx:] {
			switch t := in.(type) {
			case *ssa.Store:
				if fa, ok := t.Addr.(*ssa.FieldAddr); ok {
					f := fieldName(fa.X.Type(), fa.Field)
					if f == "line" || f == "column" {
						d := f + ":=?"
						if k, isK := constInt(t.Val); isK {
							d = fmt.Sprintf("%s:=%d", f, k)
						} else if bo, ok := t.Val.(*ssa.BinOp); ok && isFieldLoad(bo.X, f) {
							if k, isK := constInt(bo.Y); isK {
								d = fmt.Sprintf("%s%s%d", f, bo.Op, k)
							}
						}
						stores = append(stores, d)
					}
				}
			case *ssa.Return:
				paths = append(paths, pathInfo{append([]string{}, stores...), append([]string{}, guards...), t})
				return
			case *ssa.If:
				desc := "?"
				if call, ok := t.Cond.(*ssa.Call); ok {
					switch call.Call.StaticCallee() {
					case isCol:
						if unreadChar(call.Call.Args[1], 0) {
							desc = "isColumn(unread)"
						} else {
							desc = "isColumn(other)"
						}
					case isLine:
						a := call.Call.Args
						if unreadChar(a[1], -1) && unreadChar(a[2], 0) && unreadChar(a[3], 1) {
							desc = "isLine(unread)"
						} else {
							desc = "isLine(other)"
						}
					}
				} else if bo, ok := t.Cond.(*ssa.BinOp); ok {
					desc = "cmp:" + c.newExpr(fn).str(bo)
				}
				walk(b.Succs[0], 0, stores, append(append([]string{}, guards...), desc+"=T"), seen)
				walk(b.Succs[1], 0, stores, append(append([]string{}, guards...), desc+"=F"), seen)
				return
			}
		}
		for _, s := range b.Succs {
			walk(s, 0, stores, guards, seen)
		}
	}
	idx := 0
	for i, in := range posStore.Block().Instrs {
		if in == posStore {
			idx = i + 1
		}
	}
	walk(posStore.Block(), idx, nil, nil, map[*ssa.BasicBlock]bool{})
	has := func(gs []string, s string) bool {
		for _, g := range gs {
			if g == s {
				return true
			}
		}
		return false
	}
	kinds := map[string]int{}
	for _, p := range paths {
		st := strings.Join(p.stores, ",")
		key := fmt.Sprintf("%s#after-move#%s", c.FuncKey(fn), func() string {
			if st == "" {
				return "none"
			}
			if strings.HasPrefix(st, "line:=1,column:=0") {
				return "recompute"
			}
			return st
		}())
		switch {
		case st == "column-1":
			kinds["column-back"]++
			if has(p.guards, "isColumn(unread)=T") {
				o.ok(key, c.Pos(p.ret.Pos()), "one column back exactly when the character put back occupies a column")
			} else {
				o.bad(key, c.Pos(p.ret.Pos()), "the column is decremented without testing that the character put back occupies a column (guards: "+strings.Join(p.guards, " ")+"): after putting back a CR next to an LF, or when the forward read did not count the position, the column no longer equals that of a fresh forward scan")
			}
		case st == "":
			kinds["unchanged"]++
			if has(p.guards, "isColumn(unread)=F") && has(p.guards, "isLine(unread)=F") {
				o.ok(key, c.Pos(p.ret.Pos()), "coordinates unchanged exactly when the character put back is neither a column nor a line break (a CR glued to an LF)")
			} else {
				o.bad(key, c.Pos(p.ret.Pos()), "Unread returns with line/column unchanged on a path that does not establish that the character put back contributed nothing (guards: "+strings.Join(p.guards, " ")+")")
			}
		case strings.HasPrefix(st, "line:=1,column:=0"):
			kinds["recompute"]++
			o.ok(key, c.Pos(p.ret.Pos()), "full recomputation: line and column both reset, then replayed")
		default:
			o.bad(key, c.Pos(p.ret.Pos()), "after moving the cursor back Unread updates the coordinates as ["+st+"], which is none of: one column back / unchanged / full reset-and-replay (a partial reset leaves a stale line or column)")
		}
	}
	if kinds["recompute"] == 0 {
		o.bad(c.FuncKey(fn)+"#after-move#recompute", c.Pos(fn.Pos()), "no path recomputes the coordinates after a line break is put back")
	}
	// the replay loop runs while i <= position
	{
		key := c.FuncKey(fn) + "#replay-bound"
		good := false
		for _, b := range fn.Blocks {
			if ifi, ok := b.Instrs[len(b.Instrs)-1].(*ssa.If); ok {
				if bo, ok := ifi.Cond.(*ssa.BinOp); ok && bo.Op == token.LEQ && isFieldLoad(bo.Y, "position") {
					if phi, ok := bo.X.(*ssa.Phi); ok {
						for _, e := range phi.Edges {
							if k, isK := constInt(e); isK && k == 0 {
								good = true
							}
						}
					}
				}
			}
		}
		o.check(good, key, c.Pos(fn.Pos()), "replay covers positions 0..position inclusive", "the replay loop does not cover exactly the positions 0..position")
	}
	// UnreadMany = n × Unread
	{
		um := c.MustFunc(pkgIO, "StringScanner", "UnreadMany")
		key := c.FuncKey(um) + "#n-times-unread"
		calls, dec, guardOK := 0, false, false
		for _, ci := range allCalls(um) {
			if ci.Common().StaticCallee() == fn {
				calls++
				for _, g := range guardsAt(ci.Block()) {
					cond, truth := g.atom()
					if bo, ok := cond.(*ssa.BinOp); ok && truth && bo.Op == token.GTR {
						if k, isK := constInt(bo.Y); isK && k == 0 {
							guardOK = true
						}
					}
				}
			}
		}
		for _, b := range um.Blocks {
			for _, in := range b.Instrs {
				if bo, ok := in.(*ssa.BinOp); ok && bo.Op == token.SUB {
					if k, isK := constInt(bo.Y); isK && k == 1 {
						dec = true
					}
				}
			}
		}
		o.check(calls == 1 && dec && guardOK, key, c.Pos(um.Pos()), "loops `for count > 0 { Unread(); count-- }`", "UnreadMany is not count single Unread steps")
	}
	// Reset = constructor state
	{
		rs := c.MustFunc(pkgIO, "StringScanner", "Reset")
		ctor := c.MustFunc(pkgIO, "", "NewStringScanner")
		collect := func(f *ssa.Function) map[string]int64 {
			m := map[string]int64{}
			for _, b := range f.Blocks {
				for _, in := range b.Instrs {
					if st, ok := in.(*ssa.Store); ok {
						if fa, ok := st.Addr.(*ssa.FieldAddr); ok {
							if k, isK := constInt(st.Val); isK {
								m[fieldName(fa.X.Type(), fa.Field)] = k
							}
						}
					}
				}
			}
			return m
		}
		a, b := collect(ctor), collect(rs)
		var diffs []string
		for _, f := range []string{"position", "line", "column"} {
			if a[f] != b[f] {
				diffs = append(diffs, fmt.Sprintf("%s: constructor %d, Reset %d", f, a[f], b[f]))
			}
			if _, ok := b[f]; !ok {
				diffs = append(diffs, f+" not reset")
			}
		}
		sort.Strings(diffs)
		o.check(len(diffs) == 0, c.FuncKey(rs)+"#constructor-state", c.Pos(rs.Pos()), "Reset stores the constructor's position/line/column", strings.Join(diffs, "; "))
	}
	return o.list
}
