package main

import (
	"fmt"
	"go/constant"
	"go/token"
	"strings"

	"golang.org/x/tools/go/ssa"
)

// ---------------------------------------------------------------------------------------------
// CUR — StringScanner (C11)
// ---------------------------------------------------------------------------------------------

const pkgIO = "io"

// constFold evaluates a pure function whose control flow and result depend on its integer/rune
// parameters only through comparisons and arithmetic with constants: constant folding of the SSA
// for one choice of representative arguments. Calls, loads and stores make it fail.
func constFold(fn *ssa.Function, args []int64) (val int64, isBool bool, ok bool) {
	env := map[ssa.Value]int64{}
	// receiver (if any) is ignored
	pi := 0
	for _, p := range fn.Params {
		if fn.Signature.Recv() != nil && p == fn.Params[0] {
			continue
		}
		if pi < len(args) {
			env[p] = args[pi]
		}
		pi++
	}
	get := func(v ssa.Value) (int64, bool) {
		if k, ok := v.(*ssa.Const); ok && k.Value != nil {
			switch k.Value.Kind() {
			case constant.Int:
				n, _ := constant.Int64Val(k.Value)
				return n, true
			case constant.Bool:
				if constant.BoolVal(k.Value) {
					return 1, true
				}
				return 0, true
			}
		}
		n, ok := env[v]
		return n, ok
	}
	cur := fn.Blocks[0]
	var pred *ssa.BasicBlock
	for steps := 0; steps < 200; steps++ {
		var next *ssa.BasicBlock
		for _, in := range cur.Instrs {
			switch t := in.(type) {
			case *ssa.Phi:
				for i, p := range cur.Preds {
					if p == pred {
						if n, ok := get(t.Edges[i]); ok {
							env[t] = n
						} else {
							return 0, false, false
						}
					}
				}
			case *ssa.BinOp:
				l, ok1 := get(t.X)
				r, ok2 := get(t.Y)
				if !ok1 || !ok2 {
					return 0, false, false
				}
				b := func(c bool) int64 {
					if c {
						return 1
					}
					return 0
				}
				switch t.Op {
				case token.EQL:
					env[t] = b(l == r)
				case token.NEQ:
					env[t] = b(l != r)
				case token.LSS:
					env[t] = b(l < r)
				case token.LEQ:
					env[t] = b(l <= r)
				case token.GTR:
					env[t] = b(l > r)
				case token.GEQ:
					env[t] = b(l >= r)
				case token.ADD:
					env[t] = l + r
				case token.SUB:
					env[t] = l - r
				default:
					return 0, false, false
				}
			case *ssa.UnOp:
				x, ok := get(t.X)
				if !ok || t.Op != token.NOT {
					return 0, false, false
				}
				env[t] = 1 - x
			case *ssa.If:
				cnd, ok := get(t.Cond)
				if !ok {
					return 0, false, false
				}
				if cnd != 0 {
					next = cur.Succs[0]
				} else {
					next = cur.Succs[1]
				}
			case *ssa.Jump:
				next = cur.Succs[0]
			case *ssa.Return:
				if len(t.Results) != 1 {
					return 0, false, false
				}
				n, ok := get(t.Results[0])
				return n, isBoolType(t.Results[0].Type()), ok
			case *ssa.DebugRef:
			default:
				return 0, false, false
			}
		}
		if next == nil {
			return 0, false, false
		}
		pred, cur = cur, next
	}
	return 0, false, false
}

func init() {
	register(&Rule{ID: "CUR.linerule", Floor: 5,
		Doc: "line-break rule as an extracted truth table over the partition {LF, CR, end-of-input, other}³ (constant folding of the comparisons): LF always breaks, CR breaks unless adjacent to LF, nothing else does; LF/CR occupy no column; the character validators answer IsEof/IsEol/IsDigit by their definition",
		Run: ruleCurLineRule})
	register(&Rule{ID: "CUR.range", Floor: 4,
		Doc: "every store to the cursor position keeps it within [-1, len]: the constant -1 (constructor, Reset), position+1 only where position+1 <= len was tested, position-1 only where position >= 0 was tested",
		Run: ruleCurRange})
	register(&Rule{ID: "CUR.pure", Floor: 8,
		Doc: "Peek, PeekLine, PeekColumn, Line, Column and the helpers they use store to no field (peeks never move the cursor)",
		Run: ruleCurPure})
	register(&Rule{ID: "CUR.siblings", Floor: 3,
		Doc: "Read, PeekLine, PeekColumn, Unread and the recomputation loop classify a position with the same window (before, at, after) = three consecutive offsets, test the column of the middle character, and the sliding window of the loop advances each variable from its right neighbour; peeks return the current coordinates once the end-of-input slot is consumed; Read performs the update for every position it enters, the end-of-input slot included",
		Run: ruleCurSiblings})
	register(&Rule{ID: "CUR.unread", Floor: 3,
		Doc: "Unread changes line/column only in ways that are functions of the content: one column back when the character put back occupies a column, nothing when it is a CR glued to an LF, a full recomputation (line and column both reset, then replayed up to the new position) otherwise; UnreadMany(n) is n × Unread; Reset restores the constructor's state",
		Run: ruleCurUnread})
}

func ruleCurLineRule(c *Ctx) []*Obligation {
	o := newObl("CUR.linerule")
	const LF, CR, EOF, OTHER = 10, 13, -1, 'a'
	reps := []int64{LF, CR, EOF, OTHER}
	name := map[int64]string{LF: "LF", CR: "CR", EOF: "EOF", OTHER: "x"}
	isLine := c.MustFunc(pkgIO, "StringScanner", "isLine")
	isCol := c.MustFunc(pkgIO, "StringScanner", "isColumn")
	bad, n := "", 0
	for _, b := range reps {
		for _, a := range reps {
			for _, f := range reps {
				n++
				got, _, ok := constFold(isLine, []int64{b, a, f})
				if !ok {
					bad = "isLine is not a comparison-only function of its three characters"
					continue
				}
				want := a == LF || (a == CR && b != LF && f != LF)
				if (got != 0) != want {
					bad = fmt.Sprintf("isLine(before=%s, at=%s, after=%s) = %v, the rule says %v", name[b], name[a], name[f], got != 0, want)
				}
			}
		}
	}
	key := c.FuncKey(isLine) + "#truth-table"
	if bad != "" {
		o.bad(key, c.Pos(isLine.Pos()), bad+" (LF always breaks a line; CR does unless an LF is directly before or after it; nothing else does)")
	} else {
		o.ok(key, c.Pos(isLine.Pos()), fmt.Sprintf("%d-row truth table equals the line-break rule", n))
	}
	bad = ""
	for _, a := range reps {
		got, _, ok := constFold(isCol, []int64{a})
		if !ok {
			bad = "isColumn is not a comparison-only function of its character"
			continue
		}
		want := a != LF && a != CR
		if (got != 0) != want {
			bad = fmt.Sprintf("isColumn(%s) = %v, expected %v", name[a], got != 0, want)
		}
	}
	key = c.FuncKey(isCol) + "#truth-table"
	o.check(bad == "", key, c.Pos(isCol.Pos()), "LF and CR occupy no column, every other position (the end-of-input slot included) occupies one", bad)
	// CharValidator
	probes := []int64{-1, 0, 9, 10, 11, 13, 14, '/', '0', '5', '9', ':', 'a', 0x100, 0xffff}
	for _, v := range []struct {
		name string
		want func(int64) bool
	}{
		{"IsEof", func(x int64) bool { return x == -1 }},
		{"IsEol", func(x int64) bool { return x == 10 || x == 13 }},
		{"IsDigit", func(x int64) bool { return x >= '0' && x <= '9' }},
	} {
		fn := c.MustFunc(pkgUtil, "_TCharValidator", v.name)
		bad := ""
		for _, p := range probes {
			got, _, ok := constFold(fn, []int64{p})
			if !ok {
				bad = v.name + " is not a comparison-only function"
				break
			}
			if (got != 0) != v.want(p) {
				bad = fmt.Sprintf("%s(%d) = %v", v.name, p, got != 0)
			}
		}
		o.check(bad == "", c.FuncKey(fn)+"#truth-table", c.Pos(fn.Pos()), fmt.Sprintf("%d boundary probes agree with the definition", len(probes)), bad+": the tokenizer states' end-of-input / end-of-line / digit tests rely on this definition")
	}
	return o.list
}

func isFieldLoad(v ssa.Value, field string) bool {
	ld, ok := v.(*ssa.UnOp)
	if !ok || ld.Op != token.MUL {
		return false
	}
	fa, ok := ld.X.(*ssa.FieldAddr)
	return ok && fieldName(fa.X.Type(), fa.Field) == field
}

func isLenOfField(v ssa.Value, field string) bool {
	call, ok := v.(*ssa.Call)
	if !ok {
		return false
	}
	bi, ok := call.Call.Value.(*ssa.Builtin)
	return ok && bi.Name() == "len" && isFieldLoad(call.Call.Args[0], field)
}

func ruleCurRange(c *Ctx) []*Obligation {
	o := newObl("CUR.range")
	var fns []*ssa.Function
	fns = append(fns, c.methodsOfType(pkgIO, "StringScanner")...)
	fns = append(fns, c.MustFunc(pkgIO, "", "NewStringScanner"))
	for _, fn := range fns {
		n := 0
		for _, b := range fn.Blocks {
			for _, in := range b.Instrs {
				st, ok := in.(*ssa.Store)
				if !ok {
					continue
				}
				fa, ok := st.Addr.(*ssa.FieldAddr)
				if !ok || fieldName(fa.X.Type(), fa.Field) != "position" {
					continue
				}
				n++
				key := fmt.Sprintf("%s#store-position#%d", c.FuncKey(fn), n)
				if k, isK := constInt(st.Val); isK {
					o.check(k == -1, key, c.Pos(st.Pos()), "position := -1 (start)", fmt.Sprintf("position := %d is outside the start state", k))
					continue
				}
				bo, ok := st.Val.(*ssa.BinOp)
				if !ok || !isFieldLoad(bo.X, "position") {
					o.bad(key, c.Pos(st.Pos()), "the cursor is assigned a value that is not position±1 or -1")
					continue
				}
				k, _ := constInt(bo.Y)
				good := false
				switch {
				case bo.Op == token.ADD && k == 1:
					for _, g := range guardsAt(b) {
						cond, truth := g.atom()
						cb, ok := cond.(*ssa.BinOp)
						if !ok {
							continue
						}
						op := cb.Op
						if !truth {
							op = negateOp(op)
						}
						// position+1 <= len(content)  |  position < len(content)
						if add, ok := cb.X.(*ssa.BinOp); ok && add.Op == token.ADD && isFieldLoad(add.X, "position") {
							if k1, _ := constInt(add.Y); k1 == 1 && isLenOfField(cb.Y, "content") && op == token.LEQ {
								good = true
							}
						}
						if isFieldLoad(cb.X, "position") && isLenOfField(cb.Y, "content") && op == token.LSS {
							good = true
						}
					}
					o.check(good, key, c.Pos(st.Pos()), "position+1 stored only where position+1 <= len(content) was tested: the cursor enters the end-of-input slot once and stays there", "the cursor is advanced without the test position+1 <= len(content): reading at the end of input keeps moving the cursor past the end-of-input slot, and later unreads no longer return to the content")
				case bo.Op == token.SUB && k == 1:
					for _, g := range guardsAt(b) {
						cond, truth := g.atom()
						cb, ok := cond.(*ssa.BinOp)
						if !ok || !isFieldLoad(cb.X, "position") {
							continue
						}
						op := cb.Op
						if !truth {
							op = negateOp(op)
						}
						kk, isK := constInt(cb.Y)
						if isK && ((op == token.GEQ && kk == 0) || (op == token.GTR && kk == -1)) {
							good = true
						}
					}
					o.check(good, key, c.Pos(st.Pos()), "position-1 stored only where position >= 0 was tested: unread at the start is a no-op", "the cursor is moved back without the test position >= 0: an unread at the start moves it to -2 and the next read returns end of input instead of the first character")
				default:
					o.bad(key, c.Pos(st.Pos()), "the cursor moves by something other than one position")
				}
			}
		}
	}
	return o.list
}

func ruleCurPure(c *Ctx) []*Obligation {
	o := newObl("CUR.pure")
	for _, name := range []string{"Peek", "PeekLine", "PeekColumn", "Line", "Column", "charAt", "isLine", "isColumn"} {
		fn := c.MustFunc(pkgIO, "StringScanner", name)
		key := c.FuncKey(fn) + "#no-store"
		bad := ""
		seen := map[*ssa.Function]bool{}
		var walk func(f *ssa.Function)
		walk = func(f *ssa.Function) {
			if seen[f] || f.Blocks == nil {
				return
			}
			seen[f] = true
			for _, b := range f.Blocks {
				for _, in := range b.Instrs {
					switch x := in.(type) {
					case *ssa.Store:
						if fa, ok := x.Addr.(*ssa.FieldAddr); ok {
							bad = f.Name() + " stores to field " + fieldName(fa.X.Type(), fa.Field)
						} else if _, isAlloc := x.Addr.(*ssa.Alloc); !isAlloc {
							bad = f.Name() + " stores through a pointer"
						}
					case *ssa.MapUpdate:
						bad = f.Name() + " updates a map"
					case ssa.CallInstruction:
						if g := x.Common().StaticCallee(); g != nil && c.InModule(g) {
							walk(g)
						}
					}
				}
			}
		}
		walk(fn)
		o.check(bad == "", key, c.Pos(fn.Pos()), "reads only", bad+": a peek/accessor must not move the cursor or change the coordinates")
	}
	return o.list
}

// positionOffset: v == position + k (loads of the field).
func positionOffset(v ssa.Value) (int64, bool) {
	if isFieldLoad(v, "position") {
		return 0, true
	}
	if bo, ok := v.(*ssa.BinOp); ok && isFieldLoad(bo.X, "position") {
		if k, isK := constInt(bo.Y); isK {
			if bo.Op == token.ADD {
				return k, true
			}
			if bo.Op == token.SUB {
				return -k, true
			}
		}
	}
	return 0, false
}

// ---- the scanner evaluated abstractly ------------------------------------------------------------------
//
// The cursor routines are evaluated with the shared abstract interpreter over every content of up to
// three characters drawn from the partition {LF, CR, X = any other character} (the classification
// window is three characters wide, so every arrangement of a window and of both content ends occurs).
// Characters are symbols: they can only be compared (LF = 10, CR = 13, X differs from every constant);
// the cursor, line and column are integers. No content is read from a file or run through the library:
// the routines' SSA is interpreted. The specification is relational - what a fresh forward scan to the
// same position reports - so it does not restate the line rule (that is CUR.linerule).

type curState struct {
	pos, line, col int64
}

type curModel struct {
	c       *Ctx
	content []string
	opaque  string
	panics  string
}

func (m *curModel) run(method string, st curState, args ...aiVal) (aiVal, curState, bool) {
	c := m.c
	fn := c.MustFunc("io", "StringScanner", method)
	ai := &absInterp{c: c, fn: fn, env: map[ssa.Value]aiVal{}, fields: map[string]aiVal{}}
	lst := aiVal{kind: "list"}
	for _, ch := range m.content {
		lst.tup = append(lst.tup, aiSym(ch))
	}
	ai.fields["content"] = lst
	ai.fields["position"] = aiInt(st.pos)
	ai.fields["line"] = aiInt(st.line)
	ai.fields["column"] = aiInt(st.col)
	for i, a := range args {
		if i+1 < len(fn.Params) {
			ai.env[fn.Params[i+1]] = a
		}
	}
	ai.inline = func(g *ssa.Function) bool { return recvNamedFn(g) == "StringScanner" }
	ai.cmp = func(a, b aiVal) (bool, bool) {
		code := func(v aiVal) (int64, bool, bool) { // value, isKnownConstant, isSymbol
			switch {
			case v.kind == "int":
				return v.n, true, false
			case v.kind == "sym" && v.s == "LF":
				return 10, true, true
			case v.kind == "sym" && v.s == "CR":
				return 13, true, true
			case v.kind == "sym" && v.s == "X":
				return 0, false, true
			}
			return 0, false, false
		}
		av, ak, as := code(a)
		bv, bk, bs := code(b)
		if !(as || ak) || !(bs || bk) {
			return false, false
		}
		if as && bs {
			return a.s == b.s, true
		}
		if ak && bk {
			return av == bv, true
		}
		return false, true // X against a constant
	}
	out := ai.run(fn.Blocks[0], nil, 0)
	switch out.kind {
	case "panic":
		m.panics = method + ": " + out.why
		return aiVal{}, st, false
	case "return":
	default:
		m.opaque = method + ": " + out.why
		return aiVal{}, st, false
	}
	ns := st
	for name, dst := range map[string]*int64{"position": &ns.pos, "line": &ns.line, "column": &ns.col} {
		v := ai.fields[name]
		if v.kind != "int" {
			m.opaque = method + " leaves " + name + " outside the model"
			return aiVal{}, st, false
		}
		*dst = v.n
	}
	if l := ai.fields["content"]; l.kind != "list" || len(l.tup) != len(m.content) {
		m.opaque = method + " changes the content"
		return aiVal{}, st, false
	}
	var ret aiVal
	if len(out.ret) == 1 {
		ret = out.ret[0]
	}
	return ret, ns, true
}

func curContents() [][]string {
	out := [][]string{{}}
	alphabet := []string{"LF", "CR", "X"}
	var rec func(prefix []string, n int)
	rec = func(prefix []string, n int) {
		if n == 0 {
			out = append(out, append([]string{}, prefix...))
			return
		}
		for _, a := range alphabet {
			rec(append(prefix, a), n-1)
		}
	}
	for n := 1; n <= 3; n++ {
		rec(nil, n)
	}
	return out
}

type curCheck struct {
	key, ok string
	runs    int
	bad     string
	undec   string
}

// curModelResults evaluates all relational checks once (shared by CUR.siblings and CUR.unread).
var curModelMemo map[string]*curCheck

func (c *Ctx) curModelResults() map[string]*curCheck {
	if curModelMemo != nil {
		return curModelMemo
	}
	checks := map[string]*curCheck{}
	get := func(key, ok string) *curCheck {
		if checks[key] == nil {
			checks[key] = &curCheck{key: key, ok: ok}
		}
		return checks[key]
	}
	show := func(content []string) string { return "[" + strings.Join(content, " ") + "]" }
	fail := func(ch *curCheck, m *curModel, msg string) {
		switch {
		case m.panics != "":
			if ch.bad == "" {
				ch.bad = "panics on content " + show(m.content) + ": " + m.panics
			}
		case m.opaque != "":
			ch.undec = m.opaque
		case ch.bad == "":
			ch.bad = msg + " (content " + show(m.content) + ")"
		}
	}
	for _, content := range curContents() {
		n := int64(len(content))
		m := &curModel{c: c, content: content}
		// forward scan: the states after 0, 1, …, n+1 reads from the constructor's state (position -1, line 1, column 0)
		states := []curState{{-1, 1, 0}}
		chRead := get("Read#forward-scan", "Read returns the characters in order, then -1 for ever, and moves the cursor by one up to the end-of-input slot")
		okScan := true
		for p := int64(0); p <= n && okScan; p++ {
			chRead.runs++
			ret, ns, ok := m.run("Read", states[len(states)-1])
			if !ok {
				fail(chRead, m, "")
				okScan = false
				break
			}
			if ns.pos != p {
				fail(chRead, m, fmt.Sprintf("read number %d moves the cursor to %d", p+1, ns.pos))
			}
			if p < n {
				if !(ret.kind == "sym" && ret.s == content[p]) {
					fail(chRead, m, fmt.Sprintf("read number %d does not return the character at that position", p+1))
				}
			} else if !(ret.kind == "int" && ret.n == -1) {
				fail(chRead, m, "reading at the end does not return -1")
			}
			states = append(states, ns)
		}
		if !okScan {
			continue
		}
		// index i of states = cursor position i-1
		at := func(p int64) curState { return states[p+1] }
		// Read at the end of input saturates
		{
			chRead.runs++
			ret, ns, ok := m.run("Read", at(n))
			if !ok {
				fail(chRead, m, "")
			} else if ns != at(n) || !(ret.kind == "int" && ret.n == -1) {
				fail(chRead, m, "a further read at the end of input moves the cursor or the coordinates (or does not return -1)")
			}
		}
		for p := int64(-1); p <= n; p++ {
			st := at(p)
			// peeks: no movement, and they predict the next read
			chPeek := get("Peek#predicts-next-read", "Peek, PeekLine and PeekColumn leave the cursor alone and report the character, line and column the next Read gives (the current ones once the end-of-input slot is consumed)")
			for _, pk := range []string{"Peek", "PeekLine", "PeekColumn"} {
				chPeek.runs++
				ret, ns, ok := m.run(pk, st)
				if !ok {
					fail(chPeek, m, "")
					continue
				}
				if ns != st {
					fail(chPeek, m, pk+" moves the cursor or changes the coordinates")
				}
				next := st
				if p < n {
					next = at(p + 1)
				}
				switch pk {
				case "PeekLine":
					if !(ret.kind == "int" && ret.n == next.line) {
						fail(chPeek, m, fmt.Sprintf("at position %d PeekLine reports %s, the next read gives line %d", p, aiRender(ret), next.line))
					}
				case "PeekColumn":
					if !(ret.kind == "int" && ret.n == next.col) {
						fail(chPeek, m, fmt.Sprintf("at position %d PeekColumn reports %s, the next read gives column %d", p, aiRender(ret), next.col))
					}
				case "Peek":
					if p+1 < n {
						if !(ret.kind == "sym" && ret.s == content[p+1]) {
							fail(chPeek, m, fmt.Sprintf("at position %d Peek does not report the next character", p))
						}
					} else if !(ret.kind == "int" && ret.n == -1) {
						fail(chPeek, m, "Peek at the end does not report -1")
					}
				}
			}
			// Unread: exactly one step back to the forward-scan state, no-op at the start
			chUn := get("Unread#fresh-scan-state", "Unread steps back exactly one read (no-op at the start) and leaves line and column as a fresh forward scan to the new position reports them")
			chUn.runs++
			if _, ns, ok := m.run("Unread", st); !ok {
				fail(chUn, m, "")
			} else {
				want := st
				if p >= 0 {
					want = at(p - 1)
				}
				if ns != want {
					fail(chUn, m, fmt.Sprintf("Unread at position %d (line %d, column %d) gives position %d, line %d, column %d; a fresh scan to position %d reports line %d, column %d", p, st.line, st.col, ns.pos, ns.line, ns.col, want.pos, want.line, want.col))
				}
			}
			// UnreadMany(k) = k × Unread
			chMany := get("UnreadMany#n-times-unread", "UnreadMany(k) steps back k reads, stopping at the start")
			for k := int64(0); k <= n+2; k++ {
				chMany.runs++
				if _, ns, ok := m.run("UnreadMany", st, aiInt(k)); !ok {
					fail(chMany, m, "")
				} else {
					q := p - k
					if q < -1 {
						q = -1
					}
					if ns != at(q) {
						fail(chMany, m, fmt.Sprintf("UnreadMany(%d) at position %d ends at position %d, line %d, column %d instead of the fresh-scan state of position %d", k, p, ns.pos, ns.line, ns.col, q))
					}
				}
			}
			// Reset
			chReset := get("Reset#constructor-state", "Reset restores the constructor's state")
			chReset.runs++
			if _, ns, ok := m.run("Reset", st); !ok {
				fail(chReset, m, "")
			} else if ns != at(-1) {
				fail(chReset, m, "Reset does not return to position -1, line 1, column 0")
			}
			// Line / Column report the fields
			chLC := get("Line-Column#report-state", "Line and Column report the current coordinates")
			for _, g := range []string{"Line", "Column"} {
				chLC.runs++
				ret, ns, ok := m.run(g, st)
				want := st.line
				if g == "Column" {
					want = st.col
				}
				if !ok {
					fail(chLC, m, "")
				} else if ns != st || !(ret.kind == "int" && ret.n == want) {
					fail(chLC, m, g+" does not report the current value (or changes the state)")
				}
			}
		}
	}
	curModelMemo = checks
	return checks
}

func curEmit(c *Ctx, o *obl, keys []string) {
	res := c.curModelResults()
	fn := c.MustFunc("io", "StringScanner", "Read")
	for _, k := range keys {
		ch := res[k]
		key := "io.(*StringScanner)." + k
		switch {
		case ch == nil:
			o.undecided(key, c.Pos(fn.Pos()), "the scanner model produced no result for this check")
		case ch.bad != "":
			o.bad(key, c.Pos(fn.Pos()), ch.bad)
		case ch.undec != "":
			o.undecided(key, c.Pos(fn.Pos()), ch.undec)
		default:
			o.ok(key, c.Pos(fn.Pos()), fmt.Sprintf("%d abstract run(s) over all contents of up to 3 characters from {LF, CR, other}: %s", ch.runs, ch.ok))
		}
	}
}

func ruleCurSiblings(c *Ctx) []*Obligation {
	o := newObl("CUR.siblings")
	curEmit(c, o, []string{"Read#forward-scan", "Peek#predicts-next-read", "Line-Column#report-state"})
	return o.list
}

func ruleCurUnread(c *Ctx) []*Obligation {
	o := newObl("CUR.unread")
	curEmit(c, o, []string{"Unread#fresh-scan-state", "UnreadMany#n-times-unread", "Reset#constructor-state"})
	return o.list
}
