package main

import (
	"fmt"
	"go/types"
	"regexp"
	"sort"
	"strings"
	"sync"

	"golang.org/x/tools/go/ssa"
)

// ---------------------------------------------------------------------------------------------
// GRAM.parse — the parser evaluated abstractly through its exported entry points.
//
// For every token string of a finite family the abstract machine (mach.go) runs
// NewExpressionParser / ParseTokens / ResultTokens on the SSA of the current tree and the outcome is
// compared with the grammar of the property statement (a reference recursive descent over the
// precedence table, written here): sentences must be compiled to the post-order of their syntax
// tree, everything else must be rejected with an error that carries a code. The families are the
// partition of the statement's own quantifier: every token string up to a bounded length over a
// representative alphabet, every ordered pair of binary operators, prefix/postfix operators against
// every binary operator, calls, indexing, grouping, and single-token mutations of sentences.
// Nothing inside the parser is named: helper extraction, table-driven rewrites, closures and
// renamed fields are all followed by the evaluator.
// ---------------------------------------------------------------------------------------------

type lexeme struct {
	text string
	typ  string // tokenizers token type name
}

var gxKeywords = map[string]bool{"AND": true, "OR": true, "XOR": true, "NOT": true, "IS": true, "IN": true, "NULL": true, "LIKE": true, "TRUE": true, "FALSE": true}

func lexemeOf(s string) lexeme {
	up := strings.ToUpper(s)
	if i := strings.Index(s, "~"); i > 0 {
		return lexeme{s[i+1:], s[:i]}
	}
	switch {
	case gxKeywords[up]:
		return lexeme{s, "Keyword"}
	case s == " ":
		return lexeme{s, "Whitespace"}
	case strings.HasPrefix(s, "/*"):
		return lexeme{s, "Comment"}
	case s[0] >= '0' && s[0] <= '9':
		if strings.Contains(s, ".") {
			return lexeme{s, "Float"}
		}
		return lexeme{s, "Integer"}
	case s[0] == '\'' || s[0] == '"':
		return lexeme{s, "Quoted"}
	case (s[0] >= 'a' && s[0] <= 'z') || (s[0] >= 'A' && s[0] <= 'Z') || s[0] == '_':
		return lexeme{s, "Word"}
	}
	return lexeme{s, "Symbol"}
}

// the operator vocabulary of the language (statement of C01/C02; both spellings of "not equal")
var gxOperatorType = map[string]string{
	"(": "LeftBrace", ")": "RightBrace", "[": "LeftSquareBrace", "]": "RightSquareBrace",
	"+": "Plus", "-": "Minus", "*": "Star", "/": "Slash", "%": "Procent", "^": "Power",
	"=": "Equal", "<>": "NotEqual", "!=": "NotEqual", ">": "More", "<": "Less", ">=": "EqualMore", "<=": "EqualLess",
	"<<": "ShiftLeft", ">>": "ShiftRight", "AND": "And", "OR": "Or", "XOR": "Xor", "NOT": "Not", "IS": "Is",
	"IN": "In", "NULL": "Null", "LIKE": "Like", ",": "Comma",
}

type gxTok struct {
	typ string // expression token type name
	col int
}

// gxLex: the reference lexical pass. ok=false → UNKNOWN_SYMBOL.
func gxLex(ls []lexeme) ([]gxTok, bool) {
	var out []gxTok
	for i, l := range ls {
		col := i + 1
		switch l.typ {
		case "Whitespace", "Comment":
			continue
		case "Word":
			out = append(out, gxTok{"Variable", col})
		case "Integer", "Float", "Quoted":
			out = append(out, gxTok{"Constant", col})
		case "Keyword":
			up := strings.ToUpper(l.text)
			if up == "TRUE" || up == "FALSE" {
				out = append(out, gxTok{"Constant", col})
			} else if t, ok := gxOperatorType[up]; ok {
				out = append(out, gxTok{t, col})
			} else {
				return nil, false
			}
		case "Symbol":
			if t, ok := gxOperatorType[strings.ToUpper(l.text)]; ok {
				out = append(out, gxTok{t, col})
			} else {
				return nil, false
			}
		default:
			return nil, false
		}
	}
	return out, true
}

// reference grammar: levels lowest first
type gxParser struct {
	toks []gxTok
	pos  int
	out  []string
	fail bool
}

func (p *gxParser) peek() string {
	if p.pos < len(p.toks) {
		return p.toks[p.pos].typ
	}
	return ""
}
func (p *gxParser) peekAt(k int) string {
	if p.pos+k < len(p.toks) {
		return p.toks[p.pos+k].typ
	}
	return ""
}
func (p *gxParser) emit(typ string, col int) { p.out = append(p.out, fmt.Sprintf("%s@%d", typ, col)) }

var gxBinary = [][]string{
	{"And", "Or", "Xor"},
	nil, // prefix NOT
	{"Equal", "NotEqual", "More", "Less", "EqualMore", "EqualLess"},
	{"Plus", "Minus", "Like"},
	{"Star", "Slash", "Procent"},
	{"Power", "In", "ShiftLeft", "ShiftRight"},
}

func inSet(s string, set []string) bool {
	for _, x := range set {
		if x == s {
			return true
		}
	}
	return false
}

func (p *gxParser) level(l int) {
	if p.fail {
		return
	}
	if p.pos >= len(p.toks) {
		p.fail = true
		return
	}
	switch l {
	case 1:
		if p.peek() == "Not" {
			t := p.toks[p.pos]
			p.pos++
			p.level(2)
			p.emit("Not", t.col)
			return
		}
		p.level(2)
		return
	case 6:
		p.primary()
		return
	}
	p.level(l + 1)
	for !p.fail && p.pos < len(p.toks) {
		t := p.toks[p.pos]
		if inSet(t.typ, gxBinary[l]) {
			p.pos++
			p.level(l + 1)
			p.emit(t.typ, t.col)
			continue
		}
		if l == 3 {
			switch {
			case t.typ == "Not" && p.peekAt(1) == "Like":
				p.pos += 2
				p.level(4)
				p.emit("NotLike", t.col)
				continue
			case t.typ == "Is" && p.peekAt(1) == "Null":
				p.pos += 2
				p.emit("IsNull", t.col)
				continue
			case t.typ == "Is" && p.peekAt(1) == "Not" && p.peekAt(2) == "Null":
				p.pos += 3
				p.emit("IsNotNull", t.col)
				continue
			case t.typ == "Not" && p.peekAt(1) == "In":
				p.pos += 2
				p.level(4)
				p.emit("NotIn", t.col)
				continue
			}
		}
		break
	}
}

func (p *gxParser) primary() {
	unary := -1
	switch p.peek() {
	case "Plus":
		p.pos++
	case "Minus":
		unary = p.toks[p.pos].col
		p.pos++
	}
	if p.pos >= len(p.toks) {
		p.fail = true
		return
	}
	t := p.toks[p.pos]
	switch {
	case t.typ == "Constant":
		p.pos++
		p.emit("Constant", t.col)
	case t.typ == "Variable" && p.peekAt(1) == "LeftBrace":
		p.pos += 2
		n := 0
		if p.peek() == "RightBrace" {
			p.pos++
		} else {
			for {
				n++
				p.level(0)
				if p.fail {
					return
				}
				if p.peek() == "Comma" {
					p.pos++
					continue
				}
				break
			}
			if p.peek() != "RightBrace" {
				p.fail = true
				return
			}
			p.pos++
		}
		p.out = append(p.out, fmt.Sprintf("Constant#%d@%d", n, t.col))
		p.emit("Function", t.col)
	case t.typ == "Variable":
		p.pos++
		p.emit("Variable", t.col)
	case t.typ == "LeftBrace":
		p.pos++
		p.level(0)
		if p.fail {
			return
		}
		if p.peek() != "RightBrace" {
			p.fail = true
			return
		}
		p.pos++
	default:
		p.fail = true
		return
	}
	if unary >= 0 {
		p.emit("Unary", unary)
	}
	if p.peek() == "LeftSquareBrace" {
		p.pos++
		p.level(0)
		if p.fail {
			return
		}
		if p.peek() != "RightSquareBrace" {
			p.fail = true
			return
		}
		p.pos++
		p.emit("Element", 0)
	}
}

// gxReferenceFail: the column (index+1 in the lexeme string) of the token at which the sentence stops being a
// prefix of any sentence of the grammar: the unclassifiable lexeme, or the first token the reference parser
// cannot continue with; 0 when the input ends too early (no token to point at), -1 for a sentence.
func gxReferenceFail(ls []lexeme) int {
	toks, ok := gxLex(ls)
	if !ok {
		for i := range ls {
			if _, ok := gxLex(ls[:i+1]); !ok {
				return i + 1
			}
		}
		return 0
	}
	p := &gxParser{toks: toks}
	p.level(0)
	if !p.fail && p.pos == len(p.toks) {
		return -1
	}
	if p.pos < len(p.toks) {
		return p.toks[p.pos].col
	}
	return 0
}

var reErrorAt = regexp.MustCompile(`at line (-?\d+) and column (-?\d+)$`)

// gxReference: (accepted, post-order).
func gxReference(ls []lexeme) (bool, []string) {
	toks, ok := gxLex(ls)
	if !ok {
		return false, nil
	}
	p := &gxParser{toks: toks}
	p.level(0)
	if p.fail || p.pos != len(p.toks) {
		return false, nil
	}
	return true, p.out
}

// ---- the parser under the machine ---------------------------------------------------------------

type gxHarness struct {
	c            *Ctx
	m            *mach
	parser       mv
	newToken     *ssa.Function
	parseTokens  *ssa.Function
	resultTokens *ssa.Function
	tokTypes     map[string]int64
	etNames      map[int64]string
	fault        string
	lastPath     string // tail of the call path of the last ParseTokens run
}

func (c *Ctx) newGxHarness() *gxHarness {
	h := &gxHarness{c: c, m: newMach(c), tokTypes: map[string]int64{}}
	h.m.maxDepth = 1200 // a level of parentheses takes the recursive descent through all its levels: 40 levels are legitimate input
	h.newToken = c.MustFunc("tokenizers", "", "NewToken")
	ctor := c.MustFunc(pkgParsers, "", "NewExpressionParser")
	h.parseTokens = c.MustFunc(pkgParsers, "ExpressionParser", "ParseTokens")
	h.resultTokens = c.MustFunc(pkgParsers, "ExpressionParser", "ResultTokens")
	for _, n := range []string{"Unknown", "Comment", "Whitespace", "Word", "Keyword", "Symbol", "Integer", "Float", "Quoted", "Eof", "Eol", "Special", "HexDecimal", "Number"} {
		v, ok := c.constByName("tokenizers", n)
		if !ok {
			panic(anchorError("token type " + n + " not found"))
		}
		h.tokTypes[n] = v
	}
	h.etNames = c.constNames(pkgParsers, "")
	// the parser does not use its tokenizer when it is handed tokens
	h.m.intercept = func(m *mach, fn *ssa.Function, args []mv) (mv, bool) {
		if fn.Name() == "NewExpressionTokenizer" {
			return mIface{t: fn.Signature.Results().At(0).Type(), v: &mSym{name: "tokenizer", nonNil: true, typ: fn.Signature.Results().At(0).Type()}}, true
		}
		return nil, false
	}
	p, out := h.m.Call(ctor)
	if out.kind != "ok" {
		h.fault = "NewExpressionParser: " + out.why
	}
	h.parser = p
	return h
}

type gxResult struct {
	kind  string // "accept", "reject", "panic", "opaque", "nonterm" (the whole step budget used up)
	code  string
	msg   string
	rpn   []string
	why   string
	steps int // abstract steps of the parse call (token construction included)
}

// gxBudgetFactor: a parse that uses up a step budget of at least this many times what the longest returning
// parse of its family needs does not return - "is rejected with a syntax error" / "is compiled" both say it
// does. Below that factor the run stays undecided.
const gxBudgetFactor = 50

// gxOutOfBudget: the outcome of a run that ended because the machine's step budget was used up (and for no
// other reason the machine gives up for).
func gxOutOfBudget(o mOutcome) bool {
	return o.kind == "opaque" && strings.Contains(o.why, "exceeds its step budget")
}

// gxNonTermination turns budget exhaustion into a verdict: a #language violation when the budget is far
// above what the returning members of the family need, undecided otherwise.
func gxNonTermination(show, why string, budget, maxReturning int) (bad, undec string) {
	if maxReturning > 0 && budget >= gxBudgetFactor*maxReturning {
		return fmt.Sprintf("%s does not return: %s after %d abstract steps, %d times the %d steps that the longest returning parse of this family takes - every token sequence is either compiled or rejected with a syntax error that carries an error code, so the parser must come back with one of the two", show, why, budget, budget/maxReturning, maxReturning), ""
	}
	return "", fmt.Sprintf("%s: %s (budget %d steps, the longest returning parse of the family takes %d)", show, why, budget, maxReturning)
}

func (h *gxHarness) method(recv mv, t types.Type, name string) (mv, mOutcome) {
	f := h.c.lookupMethod(t, name)
	if f == nil {
		return nil, mOutcome{kind: "opaque", why: "accessor " + name + " not found"}
	}
	return h.m.Call(f, recv)
}

func (h *gxHarness) parse(ls []lexeme) gxResult {
	if h.fault != "" {
		return gxResult{kind: "opaque", why: h.fault}
	}
	h.m.steps = 0
	var arr []mv
	for i, l := range ls {
		t, out := h.m.Call(h.newToken, h.tokTypes[l.typ], l.text, int64(1), int64(i+1))
		if out.kind != "ok" {
			return gxResult{kind: "opaque", why: "NewToken: " + out.why}
		}
		arr = append(arr, t)
	}
	if arr == nil {
		arr = []mv{}
	}
	errv, out := h.m.Call(h.parseTokens, h.parser, mSlice{arr})
	h.lastPath = h.m.recentPath()
	used := h.m.steps
	switch {
	case out.kind == "panic":
		return gxResult{kind: "panic", why: out.why}
	case gxOutOfBudget(out):
		return gxResult{kind: "nonterm", why: out.why, steps: h.m.maxSteps}
	case out.kind == "opaque":
		return gxResult{kind: "opaque", why: out.why}
	}
	if _, isNil := errv.(mNilT); !isNil {
		res := gxResult{kind: "reject", code: errorCode(errv), msg: errorField(errv, "Message"), steps: used}
		return res
	}
	rv, out := h.m.Call(h.resultTokens, h.parser)
	if out.kind != "ok" {
		return gxResult{kind: "opaque", why: "ResultTokens: " + out.why}
	}
	res := gxResult{kind: "accept", steps: used}
	var toks []mv
	if sl, ok := rv.(mSlice); ok {
		toks = sl.arr
	}
	tokT := h.resultTokens.Signature.Results().At(0).Type().Underlying().(*types.Slice).Elem()
	for _, t := range toks {
		ty, o1 := h.method(t, tokT, "Type")
		col, o2 := h.method(t, tokT, "Column")
		if o1.kind != "ok" || o2.kind != "ok" {
			return gxResult{kind: "opaque", why: "token accessors: " + o1.why + o2.why}
		}
		tn, ok1 := ty.(int64)
		cn, ok2 := col.(int64)
		if !ok1 || !ok2 {
			return gxResult{kind: "opaque", why: "a result token has an undetermined type or position"}
		}
		name := h.etNames[tn]
		if name == "" {
			name = fmt.Sprintf("#%d", tn)
		}
		res.rpn = append(res.rpn, fmt.Sprintf("%s@%d", name, cn))
	}
	// the argument count constant of a call: the Constant at the column of a Function token that follows it
	for i := 0; i+1 < len(res.rpn); i++ {
		if strings.HasPrefix(res.rpn[i], "Constant@") && strings.HasPrefix(res.rpn[i+1], "Function@") && strings.TrimPrefix(res.rpn[i], "Constant@") == strings.TrimPrefix(res.rpn[i+1], "Function@") {
			val, o := h.method(toks[i], tokT, "Value")
			n := "?"
			if o.kind == "ok" {
				if vt := h.c.lookupMethod(val2type(h, val), "AsInteger"); vt != nil {
					if iv, o2 := h.m.Call(vt, val); o2.kind == "ok" {
						if k, ok := iv.(int64); ok {
							n = fmt.Sprint(k)
						}
					}
				}
			}
			res.rpn[i] = "Constant#" + n + "@" + strings.TrimPrefix(res.rpn[i], "Constant@")
		}
	}
	return res
}

func val2type(h *gxHarness, v mv) types.Type {
	f := h.c.MustFunc(pkgParsers, "ExpressionToken", "Value")
	return f.Signature.Results().At(0).Type()
}

// ---- families -------------------------------------------------------------------------------------

func lexemes(s string) []lexeme {
	var out []lexeme
	for _, f := range strings.Split(s, " ") {
		if f == "" {
			continue
		}
		if f == "␠" {
			f = " "
		}
		out = append(out, lexemeOf(f))
	}
	return out
}

var gxBinaryLexemes = []string{"AND", "OR", "XOR", "=", "<>", "!=", ">", "<", ">=", "<=", "+", "-", "LIKE", "*", "/", "%", "^", "IN", "<<", ">>"}

type gxFamily struct {
	name  string
	items []string
}

func gxFamilies(thorough bool) []gxFamily {
	var fams []gxFamily
	// every ordered pair of binary operators, with and without a prefix operator on an operand
	var pairs, triples []string
	for _, o1 := range gxBinaryLexemes {
		for _, o2 := range gxBinaryLexemes {
			pairs = append(pairs, "a "+o1+" b "+o2+" c")
		}
		triples = append(triples, "a "+o1+" b "+o1+" c "+o1+" d")
	}
	fams = append(fams, gxFamily{"operator-pairs", pairs}, gxFamily{"equal-level-chains", triples})
	var prefix []string
	for _, o := range gxBinaryLexemes {
		prefix = append(prefix, "NOT a "+o+" b", "a "+o+" NOT b", "- a "+o+" b", "a "+o+" - b", "+ a "+o+" b", "a "+o+" + b",
			"a "+o+" b IS NULL", "a IS NOT NULL "+o+" b", "a "+o+" b NOT IN c", "a NOT LIKE b "+o+" c", "a NOT IN b "+o+" c", "a "+o+" b NOT LIKE c",
			"a "+o+" f ( b )", "a "+o+" b [ c ]", "a [ b ] "+o+" c", "( a "+o+" b ) "+o+" c", "a "+o+" ( b "+o+" c )")
	}
	fams = append(fams, gxFamily{"prefix-postfix-call-index-against-binary", prefix})
	fams = append(fams, gxFamily{"calls-index-grouping", []string{
		"f ( )", "f ( a )", "f ( a , b )", "f ( a , b , c )", "f ( a , b , c , d )", "f ( g ( a ) , b )", "f ( a + b , c * d )", "f ( ( a ) )", "f ( a ) [ b ]",
		"f ( a , g ( b , c ) , d )", "- f ( a )", "a [ b ]", "a [ b + c ]", "a [ b [ c ] ]", "( a )", "( ( a ) )", "( a ) [ b ]", "( a + b ) * c", "a * ( b + c )",
		"- a", "+ a", "- ( a )", "- a [ b ]", "NOT NOT a", "NOT ( NOT a )", "NOT a", "NOT - a", "a IS NULL", "a IS NOT NULL", "a IS NULL IS NULL", "a NOT IN b", "a NOT LIKE b",
		"( a ) IN b", "a IN ( b )", "1", "'s'", "TRUE", "false", "a", "1 + 2", "a IS NULL AND b IS NOT NULL", "NOT a IS NULL", "a IN b IN c", "x IS NOT NULL OR y NOT IN z",
	}})
	fams = append(fams, gxFamily{"malformed", []string{
		"", "a b", "a +", "+ ", "* a", "a + * b", "( a", "a )", "( )", "a [ b", "a [ ]", "a ]", "f ( a", "f ( a , )", "f ( , a )", "f ( a b )", "f ( a , , b )", "f (", "f ( a ) )",
		"a IS", "a IS NOT", "a IS b", "a NOT", "a NOT b", "a NOT NULL", "a IS NULL NULL", "a x NULL", "a IS x NULL", "NOT", "a AND", "AND a", "a , b", ",", "a ( b )", "1 ( a )",
		"- - a", "+ + a", "- + a", "a - - b", "a [ b ] [ c ]", "( a ) ( b )", "a ?", "? a", "a # b", "a LIKE", "LIKE a", "a IN", "NULL", "IS NULL", "a ] b", "a [ b )", "( a ]",
		"f ( a ]", "NOT NOT", "a NOT NOT IN b", "a IS IS NULL", "1 2", "'s' 't'", "a 1", "( a ) b", "a ( )", "TRUE FALSE",
	}})
	fams = append(fams, gxFamily{"spacing-comments-case", []string{
		"a ␠ + ␠ b", "␠ a", "a ␠", "a /*c*/ + b", "/*c*/ a", "a /*c*/", "a and b", "a And b", "not a", "a is null", "a Is Not Null", "a not in b", "a like b", "a xor b", "true", "False",
		"a ␠ IS ␠ /*c*/ NOT ␠ NULL", "f ␠ ( ␠ a ␠ , ␠ b ␠ )", "␠", "/*c*/", "a ␠ ␠ b",
		// every keyword in lower and mixed case
		"false", "fAlSe", "tRuE", "TRUE", "a aNd b", "a oR b", "a or b", "a xOr b", "a iN b", "a in b", "a Like b", "a iS nUlL", "a is not null", "a Not In b", "a nOT lIKE b", "nOt a",
		"a = false", "a = FALSE", "a AND true", "a and false",
		// white space and comments are no tokens of the grammar wherever they stand: between a name and its argument list,
		// before an index, inside the two- and three-word operators, after a sign, around parentheses
		"f ␠ ( a )", "f /*c*/ ( a )", "f ␠ /*c*/ ␠ ( a , b )", "f Whitespace~\n ( )", "f /*c*/ ( )", "g ( f ␠ ( a ) , b )", "a + f Whitespace~\t ( b ) * c",
		"h ( f /*c*/ ( a , g ␠ ( ) ) )", "- f ␠ ( a )", "f ␠ ( a ) [ b ]", "a ␠ [ b ]", "a /*c*/ [ b ]", "a [ ␠ b ␠ ]", "f ( a ) /*c*/ [ b ]", "- ␠ a", "- /*c*/ a", "NOT /*c*/ a",
		"a IS /*c*/ NULL", "a IS ␠ NOT /*c*/ NULL", "a NOT /*c*/ IN b", "a NOT ␠ /*c*/ LIKE b", "( ␠ a ␠ )", "( /*c*/ a /*c*/ ) * b", "a Comment~/*x\ny*/ + Whitespace~\r\n b",
		"f ␠ ( a", "f /*c*/ ( a , )", "a ␠ ( b )", "1 /*c*/ ( a )", "a IS /*c*/ b", "a ␠ NOT ␠ b", "f ␠ ( a ) ␠ ( b )", "a ␠ [ b ] ␠ [ c ]",
	}})
	// calls whose arguments are themselves calls of every small arity, in every position
	var nested []string
	argForms := []string{"a", "g ( )", "g ( b )", "g ( b , c )", "a + g ( b ) * c"}
	var recArgs func(prefix []string, n int)
	recArgs = func(prefix []string, n int) {
		if len(prefix) > 0 {
			nested = append(nested, "f ( "+strings.Join(prefix, " , ")+" )", "h ( f ( "+strings.Join(prefix, " , ")+" ) , d )")
		}
		if n == 0 {
			return
		}
		for _, a := range argForms {
			recArgs(append(append([]string{}, prefix...), a), n-1)
		}
	}
	recArgs(nil, 3)
	fams = append(fams, gxFamily{"nested-calls", nested})
	fams = append(fams, gxFamily{"long-flat-and-deep-sentences", gxLongSentences()})
	// tokens of every other tokenizer category: nothing but words, keywords, symbols and constants is classified
	fams = append(fams, gxFamily{"unclassifiable-tokens", []string{
		// a token handed in as a keyword whose text is no letter-case variant of one (KELVIN SIGN is not a K)
		"a Keyword~li\u212ae b", "a NOT Keyword~LI\u212aE b", "Keyword~tr\u00fce", "a Keyword~\u00e4nd b",
		"Unknown~?", "a Unknown~?", "a + Unknown~? b", "Unknown~? a", "a Unknown~? + b", "Eof~", "a Eof~", "a Eol~\\n b", "Special~$ a", "a + Special~$", "a Unknown~x", "Unknown~+ a",
	}})
	// every token string up to a bounded length over a representative alphabet
	alpha := []string{"a", "1", "+", "-", "*", "^", "<", "AND", "NOT", "IS", "NULL", "IN", "LIKE", "(", ")", "[", "]", ","}
	maxLen := 3
	if thorough {
		maxLen = 4
	}
	var all []string
	var rec func(prefix []string, n int)
	rec = func(prefix []string, n int) {
		if len(prefix) > 0 {
			all = append(all, strings.Join(prefix, " "))
		}
		if n == 0 {
			return
		}
		for _, a := range alpha {
			rec(append(prefix, a), n-1)
		}
	}
	rec(nil, maxLen)
	fams = append(fams, gxFamily{fmt.Sprintf("all-token-strings-up-to-%d", maxLen), all})
	// single-token mutations of sentences
	var muts []string
	seeds := []string{"a + b * c", "f ( a , b ) + c [ d ]", "NOT a IS NOT NULL AND b NOT IN c", "- ( a + b ) ^ c", "a LIKE b OR c NOT LIKE d"}
	repl := []string{"a", "+", "NOT", "IS", "NULL", "IN", "(", ")", "[", "]", ",", "x"}
	for _, s := range seeds {
		fs := strings.Split(s, " ")
		for i := range fs {
			del := append(append([]string{}, fs[:i]...), fs[i+1:]...)
			muts = append(muts, strings.Join(del, " "))
			if i+1 < len(fs) {
				sw := append([]string{}, fs...)
				sw[i], sw[i+1] = sw[i+1], sw[i]
				muts = append(muts, strings.Join(sw, " "))
			}
			dup := append(append(append([]string{}, fs[:i+1]...), fs[i]), fs[i+1:]...)
			muts = append(muts, strings.Join(dup, " "))
			for _, r := range repl {
				rp := append([]string{}, fs...)
				rp[i] = r
				muts = append(muts, strings.Join(rp, " "))
				ins := append(append(append([]string{}, fs[:i]...), r), fs[i:]...)
				muts = append(muts, strings.Join(ins, " "))
			}
		}
	}
	fams = append(fams, gxFamily{"single-token-mutations", muts})
	return fams
}

// gxLongSentences: the grammar bounds neither the length of a sentence nor its nesting. Flat chains of 70 and
// 130 operands - plain, indexed, called, parenthesised, signed, mixed - under operators of every level are
// sentences with the left-associative post-order; so are 40 levels of parentheses, calls, indexes and
// right-nested groups.
func gxLongSentences() []string {
	var out []string
	names := []string{"a", "b", "c", "d"}
	chain := func(n int, op string, operand func(i int) string) string {
		var parts []string
		for i := 0; i < n; i++ {
			parts = append(parts, operand(i))
		}
		return strings.Join(parts, " "+op+" ")
	}
	plain := func(i int) string { return names[i%4] }
	indexed := func(i int) string { return names[i%4] + " [ " + names[(i+1)%4] + " ]" }
	called := func(i int) string { return "f ( " + names[i%4] + " )" }
	grouped := func(i int) string { return "( " + names[i%4] + " )" }
	signed := func(i int) string { return "- " + names[i%4] }
	mixed := func(i int) string { return []func(int) string{indexed, called, grouped, signed, plain}[i%5](i) }
	for _, n := range []int{70, 130} {
		for _, op := range []string{"+", "*", "AND", "<", "^"} {
			out = append(out, chain(n, op, plain))
		}
		out = append(out, chain(n, "+", indexed), chain(n, "-", called), chain(n, "*", grouped), chain(n, "+", signed))
	}
	out = append(out, chain(70, "OR", indexed), chain(70, "/", mixed))
	nest := func(depth int, open, inner, close string) string {
		return strings.Repeat(open+" ", depth) + inner + strings.Repeat(" "+close, depth)
	}
	out = append(out, nest(40, "(", "a", ")"), nest(40, "f (", "a", ")"), nest(40, "a [", "b", "]"), nest(40, "a + (", "b", ")"), nest(40, "f ( a [", "b", "] )"))
	return out
}

// gxShowItem: a member as the witness prints it; a long one by its beginning, its end and its length.
func gxShowItem(item string) string {
	fs := strings.Split(item, " ")
	if len(fs) <= 48 {
		return "‹" + item + "›"
	}
	return fmt.Sprintf("‹%s … %s› (%d tokens, continued in the same pattern)", strings.Join(fs[:24], " "), strings.Join(fs[len(fs)-8:], " "), len(fs))
}

// gxShowSeq: a sequence as the witness prints it; a long one by its beginning, its end and its length.
func gxShowSeq(seq []string, sep string) string {
	if len(seq) <= 40 {
		return strings.Join(seq, sep)
	}
	return fmt.Sprintf("%s%s…%s%s (%d in all)", strings.Join(seq[:16], sep), sep, sep, strings.Join(seq[len(seq)-6:], sep), len(seq))
}

// gxClip: a witness of a long member, cut to a readable length.
func gxClip(s string) string {
	if r := []rune(s); len(r) > 1500 {
		return string(r[:1500]) + " …"
	}
	return s
}

type gxVerdict struct {
	treeBad, langBad, undec string
	posBad                  string
	positions               int
	runs, sentences         int
}

var gxMemo map[string][]*gxFamVerdict
var gxMu sync.Mutex

type gxFamVerdict struct {
	fam gxFamily
	v   gxVerdict
}

func (c *Ctx) gxRun() []*gxFamVerdict {
	gxMu.Lock()
	defer gxMu.Unlock()
	if gxMemo == nil {
		gxMemo = map[string][]*gxFamVerdict{}
	}
	if r, ok := gxMemo[c.Tier]; ok {
		return r
	}
	fams := gxFamilies(c.Tier == "thorough")
	var out []*gxFamVerdict
	for _, f := range fams {
		fv := &gxFamVerdict{fam: f}
		out = append(out, fv)
		// split the family over workers, each with its own machine and parser instance
		nw := 1
		if len(f.items) > 2000 {
			nw = 12
		}
		if f.name == "long-flat-and-deep-sentences" {
			nw = 8 // few members, each of several hundred tokens
		}
		type res struct {
			idx                     int
			treeBad, langBad, undec string
			posBad                  string
			positioned              bool
			sentence                bool
			steps                   int    // of a parse that returned
			nonterm, ntWhy          string // the input of a parse that used up the budget; where it was then
			budget                  int
		}
		results := make([]res, len(f.items))
		var wg sync.WaitGroup
		for w := 0; w < nw; w++ {
			wg.Add(1)
			go func(w int) {
				defer wg.Done()
				h := c.newGxHarness()
				for i := w; i < len(f.items); i += nw {
					item := f.items[i]
					noteSample("GRAM.parse/"+f.name, "‹"+item+"›")
					ls := lexemes(item)
					acc, want := gxReference(ls)
					got := h.parse(ls)
					r := res{idx: i, sentence: acc}
					show := gxShowItem(item)
					if got.kind == "accept" || got.kind == "reject" {
						r.steps = got.steps
					}
					switch got.kind {
					case "opaque":
						r.undec = show + ": " + got.why
					case "nonterm":
						r.nonterm, r.ntWhy, r.budget = "ParseTokens on "+show, got.why, got.steps
					case "panic":
						r.langBad = fmt.Sprintf("parsing %s panics (%s) instead of returning a syntax error or a program", show, got.why)
					case "accept":
						if !acc {
							if len(ls) == 0 || onlyBlank(ls) {
								// the empty input is outside the statement ("every other non-empty token sequence")
								break
							}
							r.langBad = fmt.Sprintf("%s is not a sentence of the grammar but is accepted and compiled to [%s]: tokens are skipped, substituted or ignored [last functions entered: %s]", show, gxShowSeq(got.rpn, " "), h.lastPath)
						} else if strings.Join(got.rpn, " ") != strings.Join(want, " ") {
							r.treeBad = fmt.Sprintf("%s is compiled to [%s]; the post-order of its syntax tree under the precedence table is [%s] [last functions entered: %s]", show, gxShowSeq(got.rpn, " "), gxShowSeq(want, " "), h.lastPath)
						}
					case "reject":
						if acc {
							r.langBad = fmt.Sprintf("%s is a sentence of the grammar (post-order [%s]) but is rejected with %s [last functions entered: %s]", show, gxShowSeq(want, " "), got.code, h.lastPath)
						} else if got.code == "" {
							r.langBad = fmt.Sprintf("%s is rejected with an error that carries no code", show)
						}
						// a position quoted in the message points at the offending token (tokens sit at line 1, column = index)
						if mm := reErrorAt.FindStringSubmatch(got.msg); mm != nil && !acc {
							if fc := gxReferenceFail(ls); fc > 0 {
								r.positioned = true
								if mm[1] != "1" || mm[2] != fmt.Sprint(fc) {
									r.posBad = fmt.Sprintf("%s is rejected with %q; the offending token (the first one no sentence continues with) is ‹%s› at line 1, column %d", show, got.msg, ls[fc-1].text, fc)
								}
							}
						}
					}
					r.treeBad, r.langBad = gxClip(r.treeBad), gxClip(r.langBad)
					results[i] = r
				}
			}(w)
		}
		wg.Wait()
		maxReturning := 0
		for _, r := range results {
			if r.steps > maxReturning {
				maxReturning = r.steps
			}
		}
		for i := range results {
			if r := &results[i]; r.nonterm != "" {
				bad, undec := gxNonTermination(r.nonterm, r.ntWhy, r.budget, maxReturning)
				if r.langBad == "" {
					r.langBad = bad
				}
				r.undec = undec
			}
		}
		for _, r := range results {
			fv.v.runs++
			if r.sentence {
				fv.v.sentences++
			}
			if r.treeBad != "" && fv.v.treeBad == "" {
				fv.v.treeBad = r.treeBad
			}
			if r.langBad != "" && fv.v.langBad == "" {
				fv.v.langBad = r.langBad
			}
			if r.posBad != "" && fv.v.posBad == "" {
				fv.v.posBad = r.posBad
			}
			if r.positioned {
				fv.v.positions++
			}
			if r.undec != "" && fv.v.undec == "" {
				fv.v.undec = r.undec
			}
		}
	}
	// the text entry point: expressions as strings through ParseString (the real tokenizer in front),
	// each submitted twice in a row to one parser - the second answer must equal the first
	{
		fv := &gxFamVerdict{fam: gxFamily{name: "strings-parsed-twice"}}
		out = append(out, fv)
		m := newMach(c)
		m.maxSteps = 3000000
		ctor := c.MustFunc(pkgParsers, "", "NewExpressionParser")
		pt := resultType(ctor)
		parser, o := m.Call(ctor)
		if o.kind != "ok" {
			fv.v.undec = "NewExpressionParser: " + o.why
		} else {
			hx := c.newGxHarness()
			var exprs []string
			var twiceNonterm [][2]string // text, where the run was when the budget ran out
			twiceMax := 0                // steps of the longest ParseString that returned
			for _, f := range fams {
				switch f.name {
				case "malformed", "calls-index-grouping", "spacing-comments-case":
					for _, it := range f.items {
						if strings.Contains(it, "~") {
							continue // typed lexemes have no spelling of their own
						}
						exprs = append(exprs, strings.ReplaceAll(strings.ReplaceAll(it, "␠", " "), "~", ""))
					}
				}
			}
			// texts whose lexemes cannot be read off by splitting at spaces: source → reference lexemes.
			// Quoted identifiers are identifiers whatever they spell; a character that is no operator is an
			// unknown symbol wherever it stands, white space of other scripts included.
			textRef := map[string]string{
				`"or" + 1`:       "Word~or + 1",
				`a OR "or"`:      "a OR Word~or",
				`"true" + 1`:     "Word~true + 1",
				`"NOT" + 1`:      "Word~NOT + 1",
				`"in" IN "null"`: "Word~in IN Word~null",
				`f ( "And" )`:    "f ( Word~And )",
				"1 + 2\u00a0":    "1 + 2 Symbol~\u00a0",
				"\u00a01 + 2":    "Symbol~\u00a0 1 + 2",
				"1 +\u00a02":     "1 + Symbol~\u00a0 2",
				"1\u2003":        "1 Symbol~\u2003",
				"\u3000a":        "Symbol~\u3000 a",
				"a + b\u0085":    "a + b Symbol~\u0085",
				"\u00a0":         "Symbol~\u00a0",
				"a \t\r\n":       "a",
				"\t\n a":         "a",
			}
			var extra []string
			for src := range textRef {
				extra = append(extra, src)
			}
			sort.Strings(extra)
			exprs = append(exprs, extra...)
			for _, e := range exprs {
				if strings.TrimSpace(e) == "" && textRef[e] == "" || strings.Contains(e, "Unknown") || strings.Contains(e, "Eof") || strings.Contains(e, "Special") || strings.Contains(e, "Eol") {
					continue
				}
				ls := lexemes(e)
				if ref, ok := textRef[e]; ok {
					ls = lexemes(ref)
				}
				if onlyBlank(ls) {
					continue // the empty input is outside the statement
				}
				acc, _ := gxReference(ls)
				var answers []string
				for rep := 0; rep < 2; rep++ {
					m.steps = 0
					r, o := callM(c, m, pt, "ParseString", parser, e)
					if o.kind == "ok" && m.steps > twiceMax {
						twiceMax = m.steps
					}
					switch {
					case gxOutOfBudget(o):
						answers = append(answers, "nonterm: "+o.why)
						if rep == 0 {
							twiceNonterm = append(twiceNonterm, [2]string{"ParseString(‹" + e + "›)", o.why})
						}
					case o.kind == "panic":
						answers = append(answers, "panic: "+o.why)
					case o.kind != "ok":
						answers = append(answers, "opaque: "+o.why)
					default:
						if _, isNil := r.(mNilT); isNil {
							answers = append(answers, "accepted")
						} else {
							answers = append(answers, "rejected "+errorCode(r))
						}
					}
				}
				fv.v.runs++
				if acc {
					fv.v.sentences++
				}
				show := "‹" + e + "›"
				// the program compiled from the text: the token types of the reference post-order
				if acc && answers[1] == "accepted" && hx.fault == "" {
					_, want := gxReference(ls)
					var wantT, gotT []string
					for _, w := range want {
						w = w[:strings.IndexAny(w, "@#")]
						wantT = append(wantT, w)
					}
					if rv, o := m.Call(hx.resultTokens, parser); o.kind == "ok" {
						if sl, ok := rv.(mSlice); ok {
							tokT := hx.resultTokens.Signature.Results().At(0).Type().Underlying().(*types.Slice).Elem()
							for _, t := range sl.arr {
								if f := c.lookupMethod(tokT, "Type"); f != nil {
									ty, _ := m.Call(f, t)
									if tn, ok := ty.(int64); ok {
										gotT = append(gotT, hx.etNames[tn])
									}
								}
							}
						}
						if strings.Join(gotT, " ") != strings.Join(wantT, " ") && fv.v.treeBad == "" {
							fv.v.treeBad = fmt.Sprintf("ParseString(%s) compiles to [%s]; the post-order of its syntax tree is [%s] (spelling, spacing and letter case do not change the tree)", show, strings.Join(gotT, " "), strings.Join(wantT, " "))
						}
					}
				}
				switch {
				case strings.HasPrefix(answers[0], "nonterm"):
					// judged below, against the longest returning parse of the family
				case strings.HasPrefix(answers[0], "opaque"):
					if fv.v.undec == "" {
						fv.v.undec = show + ": " + answers[0]
					}
				case strings.HasPrefix(answers[0], "panic") || strings.HasPrefix(answers[1], "panic"):
					if fv.v.langBad == "" {
						fv.v.langBad = fmt.Sprintf("ParseString(%s) %s / %s", show, answers[0], answers[1])
					}
				case acc != (answers[0] == "accepted"):
					if fv.v.langBad == "" {
						fv.v.langBad = fmt.Sprintf("ParseString(%s) is %s; the reference grammar says sentence=%v", show, answers[0], acc)
					}
				case answers[0] != answers[1]:
					if fv.v.langBad == "" {
						fv.v.langBad = fmt.Sprintf("ParseString(%s) is %s the first time and %s when the same text is submitted again to the same parser", show, answers[0], answers[1])
					}
				}
			}
			for _, nt := range twiceNonterm {
				bad, undec := gxNonTermination(nt[0], nt[1], m.maxSteps, twiceMax)
				if bad != "" && fv.v.langBad == "" {
					fv.v.langBad = bad
				}
				if undec != "" && fv.v.undec == "" {
					fv.v.undec = undec
				}
			}
		}
	}
	// renderings of the token strings as text: spacing, comments, letter case, margins, quoted positions
	out = append(out, c.gxTextFamilies(fams)...)
	gxMemo[c.Tier] = out
	return out
}

func onlyBlank(ls []lexeme) bool {
	for _, l := range ls {
		if l.typ != "Whitespace" && l.typ != "Comment" {
			return false
		}
	}
	return true
}

func init() {
	register(&Rule{ID: "GRAM.parse", Floor: 20,
		Doc: "the parser evaluated abstractly through NewExpressionParser/ParseTokens/ResultTokens over finite families of token strings (all strings up to a bounded length over a representative alphabet, all ordered pairs of binary operators, prefix/postfix/call/index against every binary operator, calls, grouping, malformed forms, single-token mutations, spacing/comments/case): every sentence of the statement's grammar is compiled to the post-order of its syntax tree (#tree#…) and every other string is rejected with a coded error (#language#…); a position quoted in a rejection is that of the offending token (#error-position#…). Through ParseString the token strings are also submitted as text in many renderings (nothing between lexemes that cannot merge, one blank everywhere, blanks / tabs / line breaks / control characters / comments in every gap and in each gap in turn, keywords in lower and alternating case; white space and comments around the text; Unicode spaces, which are unknown symbols; words that resemble keywords through KELVIN SIGN, dotless i, long s): same program, same acceptance, and the quoted position is the forward-scan line and column of the offending lexeme in the text as given",
		Run: ruleGramParse})
}

func ruleGramParse(c *Ctx) []*Obligation {
	o := newObl("GRAM.parse")
	pos := c.Pos(c.MustFunc(pkgParsers, "ExpressionParser", "ParseTokens").Pos())
	for _, fv := range c.gxRun() {
		kt := "parsers.ExpressionParser#tree#" + fv.fam.name
		kl := "parsers.ExpressionParser#language#" + fv.fam.name
		if strings.HasPrefix(fv.fam.name, "all-token-strings") {
			kt = "parsers.ExpressionParser#tree#all-token-strings"
			kl = "parsers.ExpressionParser#language#all-token-strings"
		}
		by := fmt.Sprintf("%d abstract runs (%d sentences) agree with the reference grammar", fv.v.runs, fv.v.sentences)
		switch {
		case fv.v.treeBad != "":
			o.bad(kt, pos, fv.v.treeBad)
		case fv.v.undec != "":
			o.undecided(kt, pos, fv.v.undec)
		default:
			o.ok(kt, pos, by)
		}
		switch {
		case fv.v.langBad != "":
			o.bad(kl, pos, fv.v.langBad)
		case fv.v.undec != "":
			o.undecided(kl, pos, fv.v.undec)
		default:
			o.ok(kl, pos, by)
		}
		if fv.v.positions > 0 || fv.v.posBad != "" {
			kp := strings.Replace(kl, "#language#", "#error-position#", 1)
			switch {
			case fv.v.posBad != "":
				o.bad(kp, pos, fv.v.posBad)
			case fv.v.undec != "":
				o.undecided(kp, pos, fv.v.undec)
			default:
				o.ok(kp, pos, fmt.Sprintf("%d rejections quote the position of the offending token", fv.v.positions))
			}
		}
	}
	sort.SliceStable(o.list, func(i, j int) bool { return o.list[i].Construct < o.list[j].Construct })
	return o.list
}

// errorCode: the Code field of an error object built by the module (ApplicationError), "" if there is none.
func errorCode(errv mv) string {
	ie, ok := errv.(mIface)
	if !ok {
		return ""
	}
	p, ok := ie.v.(*mv)
	if !ok || p == nil {
		return ""
	}
	st, ok := (*p).(mStruct)
	if !ok {
		return ""
	}
	pt, ok := ie.t.Underlying().(*types.Pointer)
	if !ok {
		return ""
	}
	stt, ok := pt.Elem().Underlying().(*types.Struct)
	if !ok {
		return ""
	}
	for i := 0; i < stt.NumFields(); i++ {
		if stt.Field(i).Name() == "Code" {
			if s, ok := st[i].(string); ok {
				return s
			}
		}
	}
	return ""
}
