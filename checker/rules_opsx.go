package main

import (
	"fmt"
	"go/types"
	"math"
	"math/big"
	"regexp"
	"sort"
	"strconv"
	"strings"
	"sync"

	"golang.org/x/tools/go/ssa"
)

// ---------------------------------------------------------------------------------------------
// OPS.model (C06): every operator of both operation managers evaluated abstractly on variants whose
// payloads are symbols of the host type (x for the first operand, c2 for the converted second):
// for every first-operand type the result must carry the statement's type tag and the host
// expression of that type over (x, c2) - e.g. (x + c2), (x < c2), math.Pow(c1,c2) - branches on the
// symbols are explored in both directions, so the zero / range guards appear as error outcomes and
// boolean cells as truth tables; the second operand must be passed through Convert to the first
// operand's type; Null operands follow the Null policy; cells the statement does not define end in
// an error. Division by zero, out-of-range shifts and indexes are run with constants and must give
// errors. Membership and indexing are checked against list semantics.
// ---------------------------------------------------------------------------------------------

type lit string // a constant string payload (plain strings name symbols)

var valueTypes = []string{"Integer", "Long", "Boolean", "Float", "Double", "String", "DateTime", "TimeSpan", "Object", "Array"}

type vxHarness struct {
	c       *Ctx
	m       *mach
	mgr     mv
	mgrT    types.Type
	fault   string
	vtNames map[int64]string
	vtByNm  map[string]int64
	// Convert interception
	convLog []string
	convOn  bool
	names   map[*mv]string
}

func (c *Ctx) newVxHarness(manager string) *vxHarness {
	h := &vxHarness{c: c, m: newMach(c), names: map[*mv]string{}}
	h.vtNames = c.variantTypeNames()
	h.vtByNm = map[string]int64{}
	for k, n := range h.vtNames {
		h.vtByNm[n] = k
	}
	ctor := c.MustFunc(pkgVariants, "", "New"+manager)
	h.mgrT = resultType(ctor)
	mgr, out := h.m.Call(ctor)
	if out.kind != "ok" {
		h.fault = ctor.Name() + ": " + out.why
	}
	h.mgr = mgr
	h.m.intercept = func(m *mach, fn *ssa.Function, args []mv) (mv, bool) {
		if !h.convOn || fn.Name() != "Convert" || fn.Signature.Recv() == nil || len(args) != 3 {
			return nil, false
		}
		if rn := recvNamedFn(fn); rn != "TypeUnsafeVariantOperations" && rn != "TypeSafeVariantOperations" {
			return nil, false
		}
		src, _ := args[1].(*mv)
		tt, _ := args[2].(int64)
		name := "c?"
		if n, ok := h.names[src]; ok {
			name = "c" + strings.TrimPrefix(n, "v")
		}
		h.convLog = append(h.convLog, fmt.Sprintf("Convert(%s, %s)", h.names[src], h.vtNames[tt]))
		// converting to the own type gives the value itself
		if st := h.typeOf(args[1]); st == h.vtNames[tt] {
			return mTuple{args[1], mNil}, true
		}
		if pl, out := h.m.Call(h.c.MustFunc(pkgVariants, "Variant", "AsObject"), args[1]); out.kind == "ok" {
			if pi, ok := pl.(mIface); ok {
				if n, isInt := pi.v.(int64); isInt && (h.vtNames[tt] == "Integer" || h.vtNames[tt] == "Long") {
					return mTuple{h.variant(h.vtNames[tt], n), mNil}, true
				}
			}
		}
		v := h.variant(h.vtNames[tt], name)
		return mTuple{v, mNil}, true
	}
	return h
}

func (h *vxHarness) typeOf(v mv) string {
	t, out := h.m.Call(h.c.MustFunc(pkgVariants, "Variant", "Type"), v)
	if out.kind != "ok" {
		return "?"
	}
	k, _ := t.(int64)
	return h.vtNames[k]
}

// variant builds a variant of the given type whose payload is the symbol `name` (or a constant).
func (h *vxHarness) variant(typ string, payload interface{}) mv {
	if typ == "Null" {
		v, _ := h.m.Call(h.c.MustFunc(pkgVariants, "", "EmptyVariant"))
		return v
	}
	ctor := h.c.MustFunc(pkgVariants, "", "VariantFrom"+typ)
	pt := ctor.Params[0].Type()
	var arg mv
	switch p := payload.(type) {
	case string:
		if typ == "Array" {
			// a list of two elements with symbolic payloads
			e1, e2 := h.variant("Integer", p+"[0]"), h.variant("Integer", p+"[1]")
			arg = mSlice{[]mv{e1, e2}}
			break
		}
		if _, isIface := pt.Underlying().(*types.Interface); isIface {
			// an opaque host object of a type the variants do not know
			arg = mIface{t: types.NewPointer(h.c.SSA["tokenizers"].Type("Token").Type()), v: &mSym{name: p, nonNil: true}}
		} else {
			arg = &mSym{name: p, typ: pt}
		}
	case lit:
		arg = string(p)
	default:
		arg = payload
	}
	v, out := h.m.Call(ctor, arg)
	if out.kind != "ok" {
		panic(mAbort{"constructing a " + typ + " variant: " + out.why})
	}
	return v
}

func (h *vxHarness) payloadOf(v mv) string {
	r, out := h.m.Call(h.c.MustFunc(pkgVariants, "Variant", "AsObject"), v)
	if out.kind != "ok" {
		return "?" + out.why
	}
	if i, ok := r.(mIface); ok {
		r = i.v
	}
	return normExpr(mRender(r))
}

var reAccessor = regexp.MustCompile(`As[A-Za-z]+\((\$1|c1|c2)\)`)

func xlateOracle(e string) string {
	e = reAccessor.ReplaceAllStringFunc(e, func(s string) string {
		m := reAccessor.FindStringSubmatch(s)
		if m[1] == "$1" {
			return "x"
		}
		return m[1]
	})
	e = strings.ReplaceAll(e, "time.Time.", "time.")
	e = strings.ReplaceAll(e, "time.Duration.", "time.")
	return normExpr(e)
}

var reNotEq = regexp.MustCompile(`!\(([^()\s]+) == ([^()\s]+)\)`)
var reNotNeq = regexp.MustCompile(`!\(([^()\s]+) != ([^()\s]+)\)`)
var reTimeAfter = regexp.MustCompile(`time\.After\(([a-z0-9]+),([a-z0-9]+)\)`)
var reShiftConv = regexp.MustCompile(`conv<uint(64|32)?>\(([a-z0-9]+)\)`)

// normExpr: spaces after commas removed, operands of commutative operators sorted, unsigned shift-count conversions dropped.
func normExpr(e string) string {
	e = strings.ReplaceAll(e, ", ", ",")
	e = strings.ReplaceAll(e, "‹", "")
	e = strings.ReplaceAll(e, "›", "")
	e = reShiftConv.ReplaceAllString(e, "$2")
	e = reTimeAfter.ReplaceAllString(e, "time.Before($2,$1)")
	e = reNotEq.ReplaceAllString(e, "($1 != $2)")
	e = reNotNeq.ReplaceAllString(e, "($1 == $2)")
	return normTree(e)
}

// normTree sorts the operands of commutative operators (==, !=, *, &, |, ^) at every level of a
// parenthesised infix expression as printed by the machine and by the oracle tables.
func normTree(e string) string {
	e = strings.TrimSpace(e)
	if e == "" {
		return e
	}
	if e[0] == '!' || e[0] == '-' || e[0] == '^' {
		if len(e) > 1 && (e[1] == '(' || (e[1] >= 'a' && e[1] <= 'z') || e[1] == '$') {
			return e[:1] + normTree(e[1:])
		}
	}
	if e[0] == '(' && matchingParen(e, 0) == len(e)-1 {
		in := e[1 : len(e)-1]
		depth := 0
		for i := 0; i < len(in); i++ {
			switch in[i] {
			case '(', '[', '<':
				if in[i] != '<' || (i > 0 && in[i-1] != ' ') {
					depth++
				}
			case ')', ']', '>':
				if in[i] != '>' || (i+1 < len(in) && in[i+1] != ' ' && in[i+1] != '=') {
					if depth > 0 {
						depth--
					}
				}
			case ' ':
				if depth != 0 {
					continue
				}
				j := strings.IndexByte(in[i+1:], ' ')
				if j < 0 {
					continue
				}
				op := in[i+1 : i+1+j]
				switch op {
				case "==", "!=", "*", "&", "|", "^", "+", "-", "/", "%", "<", ">", "<=", ">=", "<<", ">>", "&&", "||", "&^":
					a, b := normTree(in[:i]), normTree(in[i+2+j:])
					switch op {
					case "==", "!=", "*", "&", "|", "^":
						if a > b {
							a, b = b, a
						}
					case ">":
						a, b, op = b, a, "<"
					case ">=":
						a, b, op = b, a, "<="
					}
					return "(" + a + " " + op + " " + b + ")"
				}
			}
		}
		return "(" + normTree(in) + ")"
	}
	// f(args)
	if i := strings.IndexByte(e, '('); i > 0 && matchingParen(e, i) == len(e)-1 {
		args := splitTop(e[i+1 : len(e)-1])
		for k := range args {
			args[k] = normTree(args[k])
		}
		return e[:i] + "(" + strings.Join(args, ",") + ")"
	}
	return e
}

func matchingParen(e string, i int) int {
	depth := 0
	for k := i; k < len(e); k++ {
		switch e[k] {
		case '(':
			depth++
		case ')':
			depth--
			if depth == 0 {
				return k
			}
		}
	}
	return -1
}

func splitTop(s string) []string {
	var out []string
	depth, start := 0, 0
	for i := 0; i < len(s); i++ {
		switch s[i] {
		case '(':
			depth++
		case ')':
			depth--
		case ',':
			if depth == 0 {
				out = append(out, s[start:i])
				start = i + 1
			}
		}
	}
	return append(out, s[start:])
}

type opOutcome struct {
	conds  []string
	kind   string // "value", "error", "panic", "opaque"
	tag    string
	expr   string
	code   string
	why    string
	sameAs string // the result is one of the operands
}

// runOp explores op(v1:T1, v2:T2).
func (h *vxHarness) runOp(op, t1, t2 string, p1, p2 interface{}, intercept bool) ([]opOutcome, []string) {
	f := h.c.lookupMethod(h.mgrT, op)
	if f == nil {
		return []opOutcome{{kind: "opaque", why: "operation " + op + " not found"}}, nil
	}
	unary := f.Signature.Params().Len() == 1
	var convs []string
	mutated := ""
	paths := h.m.explore(16, func() (ret mv, out mOutcome) {
		defer func() {
			if r := recover(); r != nil {
				if a, ok := r.(mAbort); ok {
					ret, out = nil, mOutcome{kind: "opaque", why: a.why}
					return
				}
				panic(r)
			}
		}()
		h.names = map[*mv]string{}
		h.convLog = nil
		v1 := h.variant(t1, p1)
		if p, ok := v1.(*mv); ok {
			h.names[p] = "v1"
		}
		h.convOn = intercept
		defer func() { h.convOn = false }()
		b1 := h.typeOf(v1) + " " + h.payloadOf(v1)
		if unary {
			r, out := h.m.Call(f, h.mgr, v1)
			convs = h.convLog
			if a1 := h.typeOf(v1) + " " + h.payloadOf(v1); a1 != b1 && out.kind == "ok" {
				mutated = fmt.Sprintf("the operand changes from %s to %s", b1, a1)
			}
			return r, out
		}
		v2 := h.variant(t2, p2)
		if p, ok := v2.(*mv); ok {
			h.names[p] = "v2"
		}
		b2 := h.typeOf(v2) + " " + h.payloadOf(v2)
		r, out := h.m.Call(f, h.mgr, v1, v2)
		convs = h.convLog
		if out.kind == "ok" {
			if a1 := h.typeOf(v1) + " " + h.payloadOf(v1); a1 != b1 {
				mutated = fmt.Sprintf("the first operand changes from %s to %s", b1, a1)
			}
			if a2 := h.typeOf(v2) + " " + h.payloadOf(v2); a2 != b2 {
				mutated = fmt.Sprintf("the second operand changes from %s to %s", b2, a2)
			}
		}
		return r, out
	})
	var outs []opOutcome
	for _, p := range paths {
		oc := opOutcome{conds: p.conds}
		switch p.out.kind {
		case "panic":
			oc.kind, oc.why = "panic", p.out.why
		case "opaque":
			oc.kind, oc.why = "opaque", p.out.why
		default:
			tp, ok := p.ret.(mTuple)
			if !ok || len(tp) != 2 {
				oc.kind, oc.why = "opaque", "unexpected result shape"
				break
			}
			if _, isNil := tp[1].(mNilT); !isNil {
				oc.kind = "error"
				oc.code = errorCode(tp[1])
				if oc.code == "" {
					oc.code = mRender(tp[1])
				}
				break
			}
			if _, isNil := tp[0].(mNilT); isNil {
				oc.kind, oc.why = "neither", "nil result without error"
				break
			}
			oc.kind = "value"
			oc.tag = h.typeOf(tp[0])
			oc.expr = h.payloadOf(tp[0])
		}
		outs = append(outs, oc)
	}
	if mutated != "" {
		outs = append(outs, opOutcome{kind: "panic", why: "writes into its operand (" + mutated + "): operators return a new variant, the operands belong to the caller"})
	}
	return outs, convs
}

// (the operand may be viewed through a whole-number conversion first: uint(count) >= width is the usual
// single-comparison form of count < 0 || count >= width)
var undefinedCond = regexp.MustCompile(`^\((c2|x|c1|conv<u?int(8|16|32|64)?>\((c2|x|c1)\)) (==|<|>|>=|<=|!=) -?[0-9]+\)=|^\(-?[0-9]+ (==|<|>|>=|<=|!=) (c2|x|c1|conv<u?int(8|16|32|64)?>\((c2|x|c1)\))\)=`)

// boolEval evaluates a tiny boolean expression over x and c2.
func boolEval(e string, x, c2 bool) (bool, bool) {
	e = strings.TrimSpace(e)
	switch e {
	case "true":
		return true, true
	case "false":
		return false, true
	case "x":
		return x, true
	case "c2":
		return c2, true
	}
	if strings.HasPrefix(e, "!") {
		v, ok := boolEval(e[1:], x, c2)
		return !v, ok
	}
	if strings.HasPrefix(e, "(") && strings.HasSuffix(e, ")") {
		in := e[1 : len(e)-1]
		for _, op := range []string{" == ", " != ", " && ", " || "} {
			if i := strings.Index(in, op); i > 0 {
				a, ok1 := boolEval(in[:i], x, c2)
				b, ok2 := boolEval(in[i+len(op):], x, c2)
				if !ok1 || !ok2 {
					return false, false
				}
				switch op {
				case " == ":
					return a == b, true
				case " != ":
					return a != b, true
				case " && ":
					return a && b, true
				default:
					return a || b, true
				}
			}
		}
	}
	return false, false
}

type opsVerdict struct {
	key, pos   string
	bad, undec string
	runs       int
}

var opsxMemo []*opsVerdict
var opsxMu sync.Mutex

func (c *Ctx) opsxRun() []*opsVerdict {
	opsxMu.Lock()
	defer opsxMu.Unlock()
	if opsxMemo != nil {
		return opsxMemo
	}
	oracle := opsOracle()
	var methods []string
	for m := range oracle {
		methods = append(methods, m)
	}
	sort.Strings(methods)
	var all []*opsVerdict
	var mu sync.Mutex
	var wg sync.WaitGroup
	unchanged := map[string]*opsVerdict{}
	for _, manager := range managers {
		unchanged[manager] = &opsVerdict{key: fmt.Sprintf("variants.%s#operands-unchanged", manager), pos: c.Pos(c.MustFunc(pkgVariants, "", "New"+manager).Pos())}
		all = append(all, unchanged[manager])
	}
	for _, manager := range managers {
		for _, op := range methods {
			manager, op := manager, op
			wg.Add(1)
			go func() {
				defer wg.Done()
				h := c.newVxHarness(manager)
				fn := c.lookupMethod(h.mgrT, op)
				v := &opsVerdict{key: fmt.Sprintf("variants.%s.%s#cells", manager, op)}
				if fn != nil {
					v.pos = c.Pos(fn.Pos())
				}
				defer func() {
					mu.Lock()
					all = append(all, v)
					mu.Unlock()
				}()
				if h.fault != "" || fn == nil {
					v.undec = h.fault + " operation " + op + " missing"
					return
				}
				bad := func(format string, a ...interface{}) {
					if v.bad == "" {
						v.bad = fmt.Sprintf(format, a...)
					}
				}
				unary := fn.Signature.Params().Len() == 1
				for _, t1 := range valueTypes {
					spec, defined := oracle[op][t1]
					// the second operand has another type: it must be converted to the first operand's type
					t2 := "Integer"
					if t1 == "Integer" || op == "Lsh" || op == "Rsh" {
						t2 = "Long"
					}
					if op == "Pow" {
						t2 = "Float"
					}
					v.runs++
					mu.Lock()
					unchanged[manager].runs++
					mu.Unlock()
					outs, convs := h.runOp(op, t1, t2, "x", "y", true)
					where := fmt.Sprintf("%s.%s(%s x, %s y)", manager, op, t1, t2)
					if t1 == "Integer" || t1 == "String" {
						noteSample("OPS.model/"+op, where)
					}
					if unary {
						where = fmt.Sprintf("%s.%s(%s x)", manager, op, t1)
					}
					var values, errs []opOutcome
					for _, oc := range outs {
						switch oc.kind {
						case "opaque":
							if v.undec == "" {
								v.undec = where + ": " + oc.why
							}
						case "panic":
							if strings.HasPrefix(oc.why, "writes into") {
								mu.Lock()
								if u := unchanged[manager]; u.bad == "" {
									u.bad = where + " " + oc.why
								}
								mu.Unlock()
							} else {
								bad("%s panics: %s", where, oc.why)
							}
						case "neither":
							bad("%s returns neither a result nor an error", where)
						case "value":
							values = append(values, oc)
						case "error":
							errs = append(errs, oc)
						}
					}
					if !defined {
						if len(values) > 0 {
							bad("%s is not defined by the statement but returns a %s value %s instead of an error", where, values[0].tag, values[0].expr)
						}
						continue
					}
					if len(values) == 0 {
						if v.undec == "" || len(errs) > 0 {
							bad("%s yields no value (%d error outcome(s)); the statement defines it as %s of type %s", where, len(errs), xlateOracle(spec.expr), spec.setter)
						}
						continue
					}
					// conversion of the second operand
					if !unary {
						wantConv := fmt.Sprintf("Convert(v2, %s)", t1)
						if cs, ok := opsConvertOracle[op]; ok {
							wantConv = ""
							for _, s := range cs {
								s = strings.ReplaceAll(strings.ReplaceAll(s, "$1", "v1"), "$2", "v2")
								wantConv += s + ";"
							}
						} else {
							wantConv += ";"
						}
						got := strings.Join(convs, ";")
						if got != "" {
							got += ";"
						}
						if got != wantConv {
							bad("%s converts [%s]; the statement converts [%s] (the second operand to the first operand's type)", where, strings.TrimSuffix(got, ";"), strings.TrimSuffix(wantConv, ";"))
						}
					}
					want := xlateOracle(spec.expr)
					if t1 == "Double" {
						want = strings.ReplaceAll(want, "c1", "x") // converting to the own type is the identity
					}
					if strings.HasPrefix(spec.expr, "B[") {
						// a truth table over (x, c2): bits for (F,F) (F,T) (T,F) (T,T)
						bits := spec.expr[strings.LastIndex(spec.expr, ":")+1:]
						if strings.Contains(spec.expr, "time.") {
							continue // date-time comparisons combine two host predicates; decided by the ordering checks below
						}
						for i, asg := range [][2]bool{{false, false}, {false, true}, {true, false}, {true, true}} {
							found := false
							for _, oc := range values {
								consistent := true
								for _, cd := range oc.conds {
									k := strings.LastIndex(cd, "=")
									val, ok := boolEval(cd[:k], asg[0], asg[1])
									if !ok {
										consistent = false
										if v.undec == "" {
											v.undec = where + ": condition " + cd + " is outside the boolean model"
										}
										break
									}
									if fmt.Sprint(val) != cd[k+1:] {
										consistent = false
										break
									}
								}
								if !consistent {
									continue
								}
								found = true
								res, ok := boolEval(oc.expr, asg[0], asg[1])
								if !ok {
									if v.undec == "" {
										v.undec = where + ": result " + oc.expr + " is outside the boolean model"
									}
								} else if (bits[i] == '1') != res || oc.tag != "Boolean" {
									bad("%s gives %v (%s) for x=%v, y=%v; boolean logic gives %v", where, res, oc.tag, asg[0], asg[1], bits[i] == '1')
								}
								break
							}
							if !found && v.undec == "" {
								bad("%s has no outcome for x=%v, y=%v", where, asg[0], asg[1])
							}
						}
						continue
					}
					if t1 == "Integer" || t1 == "Long" {
						// two's complement: 0 - x is -x; int and int64 are one representation: a conversion between
						// them around the operands or around the whole-number result changes nothing
						for i := range values {
							values[i].expr = normIntIdentity(strings.ReplaceAll(values[i].expr, "(0 - x)", "-x"))
						}
						want = normIntIdentity(want)
					}
					// a comparison cell may be computed in any logically equal way (b < a for a > b, less || equal,
					// a relation object …): decided as a truth table over the possible orderings of x and c2
					// (less, equal, greater; for the floating-point types also unordered = NaN)
					if cmpWant, isCmp := cmpAtom(want); isCmp && spec.setter == "Boolean" {
						orderings := []string{"<", "==", ">"}
						if t1 == "Float" || t1 == "Double" {
							orderings = append(orderings, "unordered")
						}
						decided := true
						for _, ord := range orderings {
							wantV := cmpTruth(cmpWant, ord)
							found := false
							for _, oc := range values {
								consistent := true
								for _, cd := range oc.conds {
									k := strings.LastIndex(cd, "=")
									val, ok := cmpEval(normExpr(cd[:k]), ord)
									if !ok {
										decided = false
										consistent = false
										break
									}
									if fmt.Sprint(val) != cd[k+1:] {
										consistent = false
										break
									}
								}
								if !consistent {
									continue
								}
								found = true
								got, ok := cmpEval(oc.expr, ord)
								if !ok || oc.tag != "Boolean" {
									decided = false
								} else if got != wantV {
									bad("%s gives %v when x %s y; %s gives %v (result %s under %v)", where, got, map[string]string{"<": "is less than", "==": "equals", ">": "is greater than", "unordered": "and y are unordered (NaN)"}[ord], want, wantV, oc.expr, oc.conds)
								}
								break
							}
							if !found {
								decided = false
							}
						}
						if decided {
							continue
						}
					}
					// the defined outcome: the value path none of whose conditions is an undefined-operation test taken
					matched := false
					for _, oc := range values {
						if oc.tag == spec.setter && oc.expr == want {
							matched = true
						}
					}
					if !matched {
						bad("%s returns %s %s; the host arithmetic of the first operand's type gives %s %s", where, values[0].tag, values[0].expr, spec.setter, want)
					}
					for _, oc := range values {
						if !(oc.tag == spec.setter && oc.expr == want) {
							bad("%s also returns %s %s under %v; the statement defines only %s %s", where, oc.tag, oc.expr, oc.conds, spec.setter, want)
						}
					}
					for _, oc := range errs {
						okCond := false
						for _, cd := range oc.conds {
							if undefinedCond.MatchString(cd) {
								okCond = true
							}
						}
						if !okCond {
							bad("%s fails with %s under %v although the operation is defined there", where, oc.code, oc.conds)
						}
					}
				}
				// Null policy
				if !unary {
					for _, nn := range [][2]string{{"Null", "Integer"}, {"Integer", "Null"}, {"Null", "Null"}} {
						v.runs++
						outs, _ := h.runOp(op, nn[0], nn[1], "x", "y", true)
						where := fmt.Sprintf("%s.%s(%s, %s)", manager, op, nn[0], nn[1])
						policy := binaryNullPolicy
						if p, ok := opsNullOracle[op]; ok {
							policy = p
						}
						idx := map[[2]string]string{{"Integer", "Null"}: "01:", {"Null", "Integer"}: "10:", {"Null", "Null"}: "11:"}[nn]
						want := ""
						for _, f := range strings.Fields(policy) {
							if strings.HasPrefix(f, idx) {
								want = strings.TrimPrefix(f, idx)
							}
						}
						for _, oc := range outs {
							got := oc.kind
							if oc.kind == "value" {
								got = oc.tag
								if oc.tag == "Boolean" {
									got = "Bool(" + oc.expr + ")"
								}
							}
							if oc.kind == "opaque" {
								if v.undec == "" {
									v.undec = where + ": " + oc.why
								}
								continue
							}
							if got != want {
								bad("%s gives %s; the Null policy gives %s", where, got, want)
							}
						}
					}
				}
			}()
		}
	}
	for _, manager := range managers {
		manager := manager
		wg.Add(1)
		go func() {
			defer wg.Done()
			h := c.newVxHarness(manager)
			vu := &opsVerdict{key: fmt.Sprintf("variants.%s#undefined-operations", manager), pos: c.Pos(c.MustFunc(pkgVariants, "", "New"+manager).Pos())}
			vm := &opsVerdict{key: fmt.Sprintf("variants.%s#membership-and-indexing", manager), pos: vu.pos}
			defer func() {
				mu.Lock()
				all = append(all, vu, vm)
				mu.Unlock()
			}()
			if h.fault != "" {
				vu.undec, vm.undec = h.fault, h.fault
				return
			}
			expect := func(v *opsVerdict, op, t1 string, a interface{}, t2 string, b interface{}, wantErr bool, wantVal string) {
				v.runs++
				outs, _ := h.runOp(op, t1, t2, a, b, true)
				where := fmt.Sprintf("%s.%s(%s %v, %s %v)", manager, op, t1, a, t2, b)
				for _, oc := range outs {
					switch {
					case oc.kind == "opaque":
						if v.undec == "" {
							v.undec = where + ": " + oc.why
						}
					case oc.kind == "panic":
						if v.bad == "" {
							v.bad = where + " panics: " + oc.why
						}
					case oc.kind == "neither":
						if v.bad == "" {
							v.bad = where + " returns neither a result nor an error"
						}
					case wantErr && oc.kind != "error":
						if v.bad == "" {
							v.bad = fmt.Sprintf("%s returns %s %s; the operation is undefined there and must yield an error", where, oc.tag, oc.expr)
						}
					case !wantErr && oc.kind == "error":
						if v.bad == "" {
							v.bad = fmt.Sprintf("%s fails with %s; the operation is defined there", where, oc.code)
						}
					case !wantErr && wantVal != "" && oc.expr != wantVal:
						if v.bad == "" {
							v.bad = fmt.Sprintf("%s returns %s; list semantics / host arithmetic give %s", where, oc.expr, wantVal)
						}
					}
				}
			}
			for _, t := range []string{"Integer", "Long"} {
				expect(vu, "Div", t, int64(7), t, int64(0), true, "")
				expect(vu, "Mod", t, int64(7), t, int64(0), true, "")
				expect(vu, "Div", t, int64(7), t, int64(2), false, "3")
				expect(vu, "Mod", t, int64(7), t, int64(2), false, "1")
				for _, k := range []int64{-1, 64, 65, 1 << 40} {
					expect(vu, "Lsh", t, int64(1), "Integer", k, true, "")
					expect(vu, "Rsh", t, int64(1), "Integer", k, true, "")
				}
				for _, k := range []int64{1, 31, 32, 33, 47} {
					expect(vu, "Lsh", t, int64(1), "Integer", k, false, fmt.Sprint(int64(1)<<uint(k)))
					expect(vu, "Rsh", t, int64(1)<<50, "Long", k, false, fmt.Sprint((int64(1)<<50)>>uint(k)))
				}
				expect(vu, "Lsh", t, int64(1), "Integer", int64(0), false, "1")
				expect(vu, "Lsh", t, int64(1), "Integer", int64(62), false, fmt.Sprint(int64(1)<<62))
				expect(vu, "Lsh", t, int64(1), "Long", int64(63), false, "-9223372036854775808")
				expect(vu, "Rsh", t, int64(-8), "Integer", int64(63), false, "-1")
				expect(vu, "Rsh", t, int64(8), "Integer", int64(2), false, "2")
			}
			// indexing: arrays by position, strings by character
			for _, k := range []int64{-1, 2, 3, 1 << 33} {
				expect(vm, "GetElement", "Array", "a", "Integer", k, true, "")
			}
			expect(vm, "GetElement", "Array", "a", "Long", int64(0), false, "a[0]")
			expect(vm, "GetElement", "Array", "a", "Integer", int64(1), false, "a[1]")
			expect(vm, "GetElement", "String", lit("aжb"), "Integer", int64(0), false, `"a"`)
			expect(vm, "GetElement", "String", lit("aжb"), "Integer", int64(1), false, `"ж"`)
			expect(vm, "GetElement", "String", lit("aжb"), "Long", int64(2), false, `"b"`)
			expect(vm, "GetElement", "String", lit("aжb"), "Integer", int64(3), true, "")
			expect(vm, "GetElement", "String", lit("aжb"), "Integer", int64(-1), true, "")
			expect(vm, "GetElement", "String", lit(""), "Integer", int64(0), true, "")
			expect(vm, "GetElement", "Integer", int64(5), "Integer", int64(0), true, "")
			// Null propagates through membership and indexing too; nothing is found in an empty list
			{
				mkArr := func(n int) mv {
					var es []mv
					for i := 0; i < n; i++ {
						es = append(es, h.variant("Integer", int64(i+1)))
					}
					a, _ := h.m.Call(c.MustFunc(pkgVariants, "", "VariantFromArray"), mSlice{es})
					return a
				}
				null := func() mv { return h.variant("Null", nil) }
				for _, tc := range []struct {
					op, what string
					a, b     mv
					want     string
				}{
					{"In", "In(Null, Integer 1)", null(), h.variant("Integer", int64(1)), "Null"},
					{"In", "In(Array [1 2], Null)", mkArr(2), null(), "Null"},
					{"In", "In(Null, Null)", null(), null(), "Null"},
					{"In", "In(Array [], Null)", mkArr(0), null(), "Null"},
					{"In", "In(Array [], Integer 1)", mkArr(0), h.variant("Integer", int64(1)), "Boolean false"},
					{"In", "In(Array [1 2], Integer 2)", mkArr(2), h.variant("Integer", int64(2)), "Boolean true"},
					{"In", "In(Array [1 2], Integer 3)", mkArr(2), h.variant("Integer", int64(3)), "Boolean false"},
					{"GetElement", "GetElement(Null, Integer 0)", null(), h.variant("Integer", int64(0)), "Null"},
					{"GetElement", "GetElement(Array [1 2], Null)", mkArr(2), null(), "Null"},
				} {
					vm.runs++
					r, out := h.m.Call(c.lookupMethod(h.mgrT, tc.op), h.mgr, tc.a, tc.b)
					tp, ok := r.(mTuple)
					switch {
					case out.kind == "panic":
						if vm.bad == "" {
							vm.bad = fmt.Sprintf("%s.%s panics: %s", manager, tc.what, out.why)
						}
					case out.kind != "ok" || !ok:
						if vm.undec == "" {
							vm.undec = fmt.Sprintf("%s.%s: %s", manager, tc.what, out.why)
						}
					default:
						got := "error " + errorCode(tp[1])
						if _, isNil := tp[1].(mNilT); isNil {
							got = h.typeOf(tp[0])
							if got != "Null" {
								got += " " + h.payloadOf(tp[0])
							}
						}
						if got != tc.want && vm.bad == "" {
							vm.bad = fmt.Sprintf("%s.%s gives %s; Null propagates through every operator except equality and NOT, and list semantics give %s", manager, tc.what, got, tc.want)
						}
					}
				}
			}
			// membership: true iff some element equals the searched value, each element converted to the searched value's type
			vm.runs++
			var convs []string
			paths := h.m.explore(16, func() (ret mv, out mOutcome) {
				defer func() {
					if r := recover(); r != nil {
						if a, ok := r.(mAbort); ok {
							ret, out = nil, mOutcome{kind: "opaque", why: a.why}
							return
						}
						panic(r)
					}
				}()
				h.names = map[*mv]string{}
				h.convLog = nil
				e0, e1 := h.variant("Integer", "e0"), h.variant("Integer", "e1")
				for i, e := range []mv{e0, e1} {
					if p, ok := e.(*mv); ok {
						h.names[p] = fmt.Sprintf("ve%d", i)
					}
				}
				arr, out0 := h.m.Call(c.MustFunc(pkgVariants, "", "VariantFromArray"), mSlice{[]mv{e0, e1}})
				if out0.kind != "ok" {
					return nil, out0
				}
				item := h.variant("Long", "s")
				if p, ok := item.(*mv); ok {
					h.names[p] = "vs"
				}
				h.convOn = true
				defer func() { h.convOn = false }()
				r, out := h.m.Call(c.lookupMethod(h.mgrT, "In"), h.mgr, arr, item)
				convs = h.convLog
				return r, out
			})
			for _, p := range paths {
				if p.out.kind == "opaque" {
					if vm.undec == "" {
						vm.undec = manager + ".In: " + p.out.why
					}
					continue
				}
				if p.out.kind == "panic" {
					vm.bad = manager + ".In panics: " + p.out.why
					continue
				}
				tp, ok := p.ret.(mTuple)
				if !ok {
					continue
				}
				any := false
				for _, cd := range p.conds {
					if strings.HasSuffix(cd, "=true") {
						any = true
					}
				}
				got := ""
				if _, isNil := tp[0].(mNilT); !isNil {
					got = h.payloadOf(tp[0])
				}
				for _, cd := range p.conds {
					k := strings.LastIndex(cd, "=")
					if normExpr(cd[:k]) == got {
						got = cd[k+1:] // the result is a comparison whose outcome is known on this path
					}
				}
				if !any && strings.Contains(got, "ce") && strings.Contains(got, "s") && strings.Contains(got, "==") {
					continue // the last comparison itself is the result
				}
				if got != fmt.Sprint(any) && vm.bad == "" {
					vm.bad = fmt.Sprintf("%s.In([e0 e1], s) returns %s when the element comparisons come out %v; membership is true exactly when some element equals the searched value", manager, got, p.conds)
				}
			}
			if len(convs) > 0 && vm.bad == "" {
				for _, cv := range convs {
					if !strings.HasSuffix(cv, ", Long)") || !strings.HasPrefix(cv, "Convert(ve") {
						vm.bad = fmt.Sprintf("%s.In([Integer e0, Integer e1], Long s) converts %v; each element is converted to the searched value's type (Convert(element, Long))", manager, convs)
					}
				}
			}
		}()
	}
	// comparison cells on constants: every ordered pair of boundary constants of one type (extremes, zero, -0, ±Inf,
	// NaN, the empty string, date-times at the zero time, the epoch, either side of the range a 64-bit nanosecond
	// count can hold, 9999-12-31; time-span extremes) x every comparison, and - as the calculator does for `x = x` -
	// THE SAME variant object as both operands, also as the searched value of a list that holds it: the answer is what
	// the host comparison of that type gives, which makes the comparisons mutually consistent on every pair
	for _, manager := range managers {
		manager := manager
		wg.Add(1)
		go func() {
			defer wg.Done()
			h := c.newVxHarness(manager)
			v := &opsVerdict{key: fmt.Sprintf("variants.%s#comparison-constants", manager), pos: c.Pos(c.MustFunc(pkgVariants, "", "New"+manager).Pos())}
			defer func() {
				if r := recover(); r != nil {
					a, ok := r.(mAbort)
					if !ok {
						panic(r)
					}
					v.undec = a.why
				}
				mu.Lock()
				all = append(all, v)
				mu.Unlock()
			}()
			if h.fault != "" {
				v.undec = h.fault
				return
			}
			h.m.external = timeConstModel
			opsCompareConstants(c, h, manager, oracle, v)
		}()
	}
	// the result of an operator is a value of its own: what a caller does with a returned variant (it may keep it
	// as an accumulator and set it) never shows in a later result. Every operator × every pair of operand types,
	// Null included: call, store something else in the result through the exported setters, call again on fresh
	// equal operands - the second answer is the first one's original value.
	for _, manager := range managers {
		manager := manager
		wg.Add(1)
		go func() {
			defer wg.Done()
			h := c.newVxHarness(manager)
			v := &opsVerdict{key: fmt.Sprintf("variants.%s#results-are-fresh", manager), pos: c.Pos(c.MustFunc(pkgVariants, "", "New"+manager).Pos())}
			defer func() {
				if r := recover(); r != nil {
					a, ok := r.(mAbort)
					if !ok {
						panic(r)
					}
					v.undec = a.why
				}
				mu.Lock()
				all = append(all, v)
				mu.Unlock()
			}()
			if h.fault != "" {
				v.undec = h.fault
				return
			}
			payloads := map[string]interface{}{"Null": nil, "Integer": int64(6), "Long": int64(3), "Boolean": true, "Float": float64(1.5), "Double": float64(2.5),
				"String": lit("7"), "DateTime": "t0", "TimeSpan": int64(1500), "Object": "o", "Array": "a"}
			types11 := append([]string{"Null"}, valueTypes...)
			show := func(t string) string {
				switch p := payloads[t].(type) {
				case nil:
					return t
				case lit:
					return fmt.Sprintf("%s %q", t, string(p))
				default:
					return fmt.Sprintf("%s %v", t, p)
				}
			}
			render := func(r mv, out mOutcome) (string, mv) {
				tp, ok := r.(mTuple)
				if out.kind != "ok" || !ok || len(tp) != 2 {
					return "", nil
				}
				if _, isNil := tp[1].(mNilT); !isNil {
					return "error " + errorCode(tp[1]), nil
				}
				if _, isNil := tp[0].(mNilT); isNil {
					return "", nil
				}
				tag := h.typeOf(tp[0])
				if tag == "Null" {
					return "Null", tp[0]
				}
				return tag + " " + h.payloadOf(tp[0]), tp[0]
			}
			vt := resultType(c.MustFunc(pkgVariants, "", "EmptyVariant"))
			for _, op := range methods {
				fn := c.lookupMethod(h.mgrT, op)
				if fn == nil {
					continue
				}
				unary := fn.Signature.Params().Len() == 1
				for _, t1 := range types11 {
					for _, t2 := range types11 {
						if unary && t2 != "Null" {
							continue
						}
						call := func() (mv, mOutcome) {
							h.m.steps = 0
							if unary {
								return h.m.Call(fn, h.mgr, h.variant(t1, payloads[t1]))
							}
							return h.m.Call(fn, h.mgr, h.variant(t1, payloads[t1]), h.variant(t2, payloads[t2]))
						}
						where := fmt.Sprintf("%s.%s(%s, %s)", manager, op, show(t1), show(t2))
						if unary {
							where = fmt.Sprintf("%s.%s(%s)", manager, op, show(t1))
						}
						first, res := render(call())
						if first == "" || res == nil {
							continue // a panic or a run outside the model is judged cell by cell above; an error has no result to keep
						}
						v.runs++
						// the caller reuses the returned variant for something of another type
						setter, stored := "SetAsInteger", "Integer 42"
						var arg mv = int64(42)
						if strings.HasPrefix(first, "Integer") {
							setter, stored, arg = "SetAsString", `String "kept"`, "kept"
						}
						if _, out := callM(c, h.m, vt, setter, res, arg); out.kind != "ok" {
							continue
						}
						second, _ := render(call())
						if second != first && second != "" && v.bad == "" {
							v.bad = fmt.Sprintf("%s returns %s; after the caller stored %s in that returned variant (%s), the same call on fresh equal operands returns %s: the operator hands out a variant it shares with later calls instead of a new one, so a result depends on what callers did with earlier results and not on the operands only", where, first, stored, setter, second)
						}
					}
				}
			}
		}()
	}
	wg.Wait()
	sort.Slice(all, func(i, j int) bool { return all[i].key < all[j].key })
	opsxMemo = all
	return all
}

func init() {
	register(&Rule{ID: "OPS.model", Floor: 44,
		Doc: "every operator of both managers evaluated abstractly on variants with symbolic payloads: per first-operand type the result tag and host expression over (x, converted y) equal the statement's matrix, the second operand goes through Convert to the first operand's type, value-dependent branches are explored both ways (zero / range guards become error outcomes, boolean cells truth tables), undefined cells end in errors, Null operands follow the Null policy; the result of every operator for every pair of operand types (Null included) is a variant of its own - storing something else in a returned result never shows in the answer to the same call on fresh operands; comparison and membership cells on every ordered pair of boundary constants of one type (NaN, ±Inf, -0, integer and time-span extremes, date-times at the zero time, the epoch, either side of the 64-bit nanosecond range, 9999-12-31) and with one variant object as both operands answer as the host comparison does",
		Run: func(c *Ctx) []*Obligation {
			o := newObl("OPS.model")
			for _, v := range c.opsxRun() {
				switch {
				case v.bad != "":
					o.bad(v.key, v.pos, v.bad)
				case v.undec != "":
					o.undecided(v.key, v.pos, v.undec)
				default:
					o.ok(v.key, v.pos, fmt.Sprintf("%d cells agree with the operator matrix", v.runs))
				}
			}
			return o.list
		}})
}

// ---- comparison cells as truth tables over the orderings of x and c2 -------------------------------------

var reCmpAtom = regexp.MustCompile(`^\((x|c2) (<|<=|==|!=) (x|c2)\)$`)

// cmpAtom: e is a single comparison of x and c2 (after normalisation: <, <=, ==, !=).
func cmpAtom(e string) ([3]string, bool) {
	m := reCmpAtom.FindStringSubmatch(e)
	if m == nil || m[1] == m[3] {
		return [3]string{}, false
	}
	return [3]string{m[1], m[2], m[3]}, true
}

// cmpTruth: the truth of the comparison a OP b under the ordering of (x, c2).
func cmpTruth(atom [3]string, ord string) bool {
	a, op, b := atom[0], atom[1], atom[2]
	if ord == "unordered" {
		return op == "!="
	}
	// ordering of (a, b)
	rel := ord
	if a == "c2" && b == "x" {
		switch ord {
		case "<":
			rel = ">"
		case ">":
			rel = "<"
		}
	}
	switch op {
	case "<":
		return rel == "<"
	case "<=":
		return rel == "<" || rel == "=="
	case "==":
		return rel == "=="
	default:
		return rel != "=="
	}
}

// cmpEval evaluates a boolean expression built from comparisons of x and c2 under an ordering.
func cmpEval(e string, ord string) (bool, bool) {
	e = strings.TrimSpace(e)
	switch e {
	case "true":
		return true, true
	case "false":
		return false, true
	}
	if a, ok := cmpAtom(e); ok {
		return cmpTruth(a, ord), true
	}
	if strings.HasPrefix(e, "!") {
		v, ok := cmpEval(e[1:], ord)
		return !v, ok
	}
	if strings.HasPrefix(e, "(") && matchingParen(e, 0) == len(e)-1 {
		in := e[1 : len(e)-1]
		depth := 0
		for i := 0; i+4 <= len(in); i++ {
			switch in[i] {
			case '(':
				depth++
			case ')':
				depth--
			}
			if depth == 0 && (strings.HasPrefix(in[i:], " && ") || strings.HasPrefix(in[i:], " || ")) {
				l, ok1 := cmpEval(in[:i], ord)
				r, ok2 := cmpEval(in[i+4:], ord)
				if !ok1 || !ok2 {
					return false, false
				}
				if in[i+1] == '&' {
					return l && r, true
				}
				return l || r, true
			}
		}
		return cmpEval(in, ord)
	}
	return false, false
}

// ---- comparison cells on constants ---------------------------------------------------------------------------

var reTimeUnixConst = regexp.MustCompile(`^time\.Unix\((-?[0-9]+),0\)$`)

func timeConstSecs(a mv) (int64, bool) {
	if i, ok := a.(mIface); ok {
		a = i.v
	}
	if sy, ok := a.(*mSym); ok {
		if mm := reTimeUnixConst.FindStringSubmatch(sy.name); mm != nil {
			n, err := strconv.ParseInt(mm[1], 10, 64)
			return n, err == nil
		}
	}
	return 0, false
}

// timeConstModel gives the host's meaning to the methods of time.Time on the constants time.Unix(s, 0): instants
// compare as their seconds counts do; the nanosecond / microsecond / millisecond counts are computed in 64-bit
// arithmetic and wrap exactly as the host's do (UnixNano is only meaningful between the years 1678 and 2262);
// the difference of two instants saturates at the extremes of a time span.
func timeConstModel(m *mach, fn *ssa.Function, args []mv) (mv, bool) {
	if !strings.HasPrefix(fnFullName(fn), "time.Time.") || len(args) == 0 {
		return nil, false
	}
	s0, ok := timeConstSecs(args[0])
	if !ok {
		return nil, false
	}
	if len(args) == 1 {
		switch fn.Name() {
		case "Unix":
			return s0, true
		case "UnixNano":
			k := int64(1000000000)
			return s0 * k, true
		case "UnixMicro":
			k := int64(1000000)
			return s0 * k, true
		case "UnixMilli":
			k := int64(1000)
			return s0 * k, true
		case "IsZero":
			return s0 == zeroTimeUnixSeconds, true
		}
		return nil, false
	}
	s1, ok := timeConstSecs(args[1])
	if !ok || len(args) != 2 {
		return nil, false
	}
	switch fn.Name() {
	case "Equal":
		return s0 == s1, true
	case "Before":
		return s0 < s1, true
	case "After":
		return s0 > s1, true
	case "Compare":
		switch {
		case s0 < s1:
			return int64(-1), true
		case s0 > s1:
			return int64(1), true
		}
		return int64(0), true
	case "Sub":
		d := new(big.Int).Mul(new(big.Int).Sub(big.NewInt(s0), big.NewInt(s1)), big.NewInt(1000000000))
		switch {
		case d.Cmp(big.NewInt(math.MaxInt64)) > 0:
			return int64(math.MaxInt64), true
		case d.Cmp(big.NewInt(math.MinInt64)) < 0:
			return int64(math.MinInt64), true
		}
		return d.Int64(), true
	}
	return nil, false
}

// opsConst is one constant of a variant type with its place in the host ordering of that type.
type opsConst struct {
	show string
	mk   func() mv
	num  float64 // Float / Double
	n    int64   // Integer / Long / TimeSpan / DateTime (seconds) / Boolean (0, 1)
	s    string  // String
}

// opsConstRel: how the host orders two constants of type t: "<", "==", ">" or "unordered" (a NaN on either side).
func opsConstRel(t string, a, b opsConst) string {
	switch t {
	case "Float", "Double":
		switch {
		case a.num != a.num || b.num != b.num:
			return "unordered"
		case a.num < b.num:
			return "<"
		case a.num > b.num:
			return ">"
		}
		return "=="
	case "String":
		switch {
		case a.s < b.s:
			return "<"
		case a.s > b.s:
			return ">"
		}
		return "=="
	}
	switch {
	case a.n < b.n:
		return "<"
	case a.n > b.n:
		return ">"
	}
	return "=="
}

var opsCmpAtoms = map[string][3]string{
	"Equal": {"x", "==", "c2"}, "NotEqual": {"x", "!=", "c2"}, "Less": {"x", "<", "c2"}, "LessEqual": {"x", "<=", "c2"},
	"More": {"c2", "<", "x"}, "MoreEqual": {"c2", "<=", "x"},
}

var opsCmpSigns = map[string]string{"Equal": "=", "NotEqual": "<>", "Less": "<", "LessEqual": "<=", "More": ">", "MoreEqual": ">="}

func opsCompareConstants(c *Ctx, h *vxHarness, manager string, oracle map[string]map[string]cellSpec, v *opsVerdict) {
	bad := func(format string, a ...interface{}) {
		if v.bad == "" {
			v.bad = fmt.Sprintf(format, a...)
		}
	}
	ints := func(t string, ns ...int64) []opsConst {
		var out []opsConst
		for _, n := range ns {
			n := n
			out = append(out, opsConst{show: fmt.Sprintf("%s %d", t, n), n: n, mk: func() mv { return h.variant(t, n) }})
		}
		return out
	}
	floats := func(t string, fs ...float64) []opsConst {
		var out []opsConst
		for _, f := range fs {
			f := f
			out = append(out, opsConst{show: fmt.Sprintf("%s %v", t, f), num: f, mk: func() mv { return h.variant(t, f) }})
		}
		if math.Signbit(fs[0]) && fs[0] == 0 {
			out[0].show = t + " -0"
		}
		return out
	}
	timeT := c.MustFunc(pkgVariants, "", "VariantFromDateTime").Params[0].Type()
	dates := func(named map[int64]string, ss ...int64) []opsConst {
		var out []opsConst
		for _, s := range ss {
			s := s
			out = append(out, opsConst{show: fmt.Sprintf("DateTime %s (time.Unix(%d, 0))", named[s], s), n: s, mk: func() mv {
				return h.variant("DateTime", &mSym{name: fmt.Sprintf("time.Unix(%d,0)", s), typ: timeT, nonNil: true})
			}})
		}
		return out
	}
	// the last / first whole seconds whose nanosecond count fits 64 bits: 2262-04-11T23:47:16Z and 1677-09-21T00:12:44Z
	const nanoMaxSec, nanoMinSec = int64(math.MaxInt64 / 1000000000), int64(math.MinInt64 / 1000000000)
	dateNames := map[int64]string{zeroTimeUnixSeconds: "0001-01-01T00:00:00Z", nanoMinSec - 1: "1677-09-21T00:12:43Z", nanoMinSec: "1677-09-21T00:12:44Z",
		-1: "1969-12-31T23:59:59Z", 0: "1970-01-01T00:00:00Z", 1709164800: "2024-02-29T00:00:00Z", nanoMaxSec: "2262-04-11T23:47:16Z", nanoMaxSec + 1: "2262-04-11T23:47:17Z",
		253402300799: "9999-12-31T23:59:59Z", -12219292800: "1582-10-15T00:00:00Z", 32503680000: "3000-01-01T00:00:00Z"}
	strs := func(ss ...string) []opsConst {
		var out []opsConst
		for _, s := range ss {
			s := s
			out = append(out, opsConst{show: fmt.Sprintf("String %q", s), s: s, mk: func() mv { return h.variant("String", lit(s)) }})
		}
		return out
	}
	inf := math.Inf(1)
	consts := map[string][]opsConst{
		"Integer":  ints("Integer", 0, 1, -1, 5, math.MaxInt64, math.MinInt64),
		"Long":     ints("Long", 0, -1, 7, math.MaxInt32+1, math.MaxInt64, math.MinInt64),
		"Float":    floats("Float", math.Copysign(0, -1), 0, 1.5, -1.5, inf, -inf, math.NaN(), math.MaxFloat32),
		"Double":   floats("Double", math.Copysign(0, -1), 0, 2.5, -2.5, inf, -inf, math.NaN(), math.MaxFloat64, math.SmallestNonzeroFloat64),
		"String":   strs("", "a", "A", "b", "ab", "ж", "10", "9"),
		"TimeSpan": ints("TimeSpan", 0, 1, -1, 1500, math.MaxInt64, math.MinInt64),
		"DateTime": dates(dateNames, zeroTimeUnixSeconds, nanoMinSec-1, nanoMinSec, -1, 0, 1709164800, nanoMaxSec, nanoMaxSec+1, 253402300799, -12219292800, 32503680000),
		"Boolean": {{show: "Boolean false", n: 0, mk: func() mv { return h.variant("Boolean", false) }},
			{show: "Boolean true", n: 1, mk: func() mv { return h.variant("Boolean", true) }}},
	}
	render := func(r mv, out mOutcome) string {
		if out.kind == "panic" {
			return "panic: " + out.why
		}
		tp, ok := r.(mTuple)
		if out.kind != "ok" || !ok || len(tp) != 2 {
			return "?" + out.why
		}
		if _, isNil := tp[1].(mNilT); !isNil {
			return "error"
		}
		if _, isNil := tp[0].(mNilT); isNil {
			return "neither a result nor an error"
		}
		tag := h.typeOf(tp[0])
		if tag == "Null" {
			return "Null"
		}
		return tag + " " + h.payloadOf(tp[0])
	}
	judge := func(where, got, want, why string) {
		v.runs++
		switch {
		case strings.HasPrefix(got, "?"):
			if v.undec == "" {
				v.undec = where + ": " + got[1:]
			}
		case got != want && !(want == "error" && strings.HasPrefix(got, "error")):
			if got != "Boolean true" && got != "Boolean false" && got != "error" && got != "Null" && !strings.HasPrefix(got, "panic") && !strings.HasPrefix(got, "neither") {
				if v.undec == "" {
					v.undec = where + ": the answer " + got + " is outside the model"
				}
				return
			}
			bad("%s gives %s; %s", where, got, why)
		}
	}
	cmpOps := []string{"Equal", "NotEqual", "Less", "LessEqual", "More", "MoreEqual"}
	relWords := map[string]string{"<": "is less than", "==": "equals", ">": "is greater than", "unordered": "is NaN or faces a NaN, unordered with"}
	for _, t := range []string{"Integer", "Long", "Float", "Double", "String", "TimeSpan", "DateTime", "Boolean"} {
		cs := consts[t]
		for i, a := range cs {
			for j, b := range cs {
				if c.Tier != "thorough" && t != "DateTime" && t != "Double" && t != "Float" && i != j && (i+j)%2 == 0 {
					continue // the quick tier runs every pair of the types whose host comparison is not a plain integer / string one
				}
				rel := opsConstRel(t, a, b)
				for _, identical := range []bool{false, true} {
					if identical && i != j {
						continue
					}
					for _, op := range cmpOps {
						h.m.steps = 0
						fn := c.lookupMethod(h.mgrT, op)
						if fn == nil {
							continue
						}
						v1 := a.mk()
						v2 := v1
						where := fmt.Sprintf("%s.%s(v, v) with one variant v = %s as both operands (as in `x %s x`)", manager, op, a.show, opsCmpSigns[op])
						if !identical {
							v2 = b.mk()
							where = fmt.Sprintf("%s.%s(%s, %s)", manager, op, a.show, b.show)
						}
						got := render(h.m.Call(fn, h.mgr, v1, v2))
						if _, defined := oracle[op][t]; !defined {
							judge(where, got, "error", "the statement does not define "+opsCmpSigns[op]+" for "+t+": an undefined operation yields an error")
							continue
						}
						want := cmpTruth(opsCmpAtoms[op], rel)
						why := fmt.Sprintf("the host comparison of type %s gives %v (the first %s the second)", t, want, relWords[rel])
						switch op {
						case "LessEqual":
							why += "; a<=b iff a<b or a=b"
						case "MoreEqual":
							why += "; a>=b iff a>b or a=b"
						case "NotEqual":
							why += "; a<>b iff not a=b"
						}
						judge(where, got, fmt.Sprintf("Boolean %v", want), why)
					}
				}
			}
			// membership: the searched variant itself is an element of the list / an equal variant is
			if _, defined := oracle["Equal"][t]; defined {
				for _, identical := range []bool{true, false} {
					h.m.steps = 0
					x := a.mk()
					el := x
					where := fmt.Sprintf("%s.In([%s, v, %s], v) with the searched variant v = %s itself in the list", manager, cs[(i+1)%len(cs)].show, cs[(i+2)%len(cs)].show, a.show)
					if !identical {
						el = a.mk()
						where = fmt.Sprintf("%s.In([%s, %s, %s], %s)", manager, cs[(i+1)%len(cs)].show, a.show, cs[(i+2)%len(cs)].show, a.show)
					}
					list, out := h.m.Call(c.MustFunc(pkgVariants, "", "VariantFromArray"), mSlice{[]mv{cs[(i+1)%len(cs)].mk(), el, cs[(i+2)%len(cs)].mk()}})
					if out.kind != "ok" {
						continue
					}
					want := false
					for _, k := range []int{i, (i + 1) % len(cs), (i + 2) % len(cs)} {
						if opsConstRel(t, cs[k], a) == "==" {
							want = true
						}
					}
					got := render(h.m.Call(c.lookupMethod(h.mgrT, "In"), h.mgr, list, x))
					judge(where, got, fmt.Sprintf("Boolean %v", want), fmt.Sprintf("membership is true exactly when some element equals the searched value by the host comparison of type %s: %v", t, want))
				}
			}
		}
	}
	// one Null variant as both operands: Null equals Null; every other comparison propagates it
	for _, op := range cmpOps {
		h.m.steps = 0
		n := h.variant("Null", nil)
		want := "Null"
		switch op {
		case "Equal":
			want = "Boolean true"
		case "NotEqual":
			want = "Boolean false"
		}
		judge(fmt.Sprintf("%s.%s(v, v) with one Null variant v as both operands", manager, op), render(h.m.Call(c.lookupMethod(h.mgrT, op), h.mgr, n, n)), want,
			"Null propagates through every operator except equality and inequality, where Null equals Null: "+want)
	}
}
