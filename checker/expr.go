package main

import (
	"fmt"
	"go/constant"
	"go/token"
	"go/types"
	"sort"
	"strings"

	"golang.org/x/tools/go/ssa"
)

// exprCtx renders SSA values as normalised expression trees. Temporaries, parenthesisation, local
// names and if/switch spelling disappear in SSA; short-circuit boolean control flow is folded back
// into a truth table over its atomic conditions (a finite abstract evaluation of the branch
// conditions — no repository code is run).
type exprCtx struct {
	c        *Ctx
	fn       *ssa.Function
	names    map[ssa.Value]string // override names for specific values (e.g. the converted operand)
	depth    int
	inline   bool // render calls to module functions by name only (never descend)
	visiting map[ssa.Value]bool
	sub      map[ssa.Value]ssa.Value // parameters of an inlined expression helper → the caller's arguments
	parent   *exprCtx                // context those arguments are rendered in
}

func (c *Ctx) newExpr(fn *ssa.Function) *exprCtx {
	return &exprCtx{c: c, fn: fn, names: map[ssa.Value]string{}}
}

func (e *exprCtx) str(v ssa.Value) string {
	return e.render(v, 14)
}

func isBoolType(t types.Type) bool {
	b, ok := t.Underlying().(*types.Basic)
	return ok && b.Kind() == types.Bool || ok && b.Kind() == types.UntypedBool
}

func (e *exprCtx) render(v ssa.Value, depth int) string {
	if v == nil {
		return "<nil>"
	}
	if n, ok := e.names[v]; ok {
		return n
	}
	if r, ok := e.sub[v]; ok && e.parent != nil {
		return e.parent.render(r, depth)
	}
	if depth == 0 {
		return "…"
	}
	switch x := v.(type) {
	case *ssa.Parameter:
		for i, p := range e.fn.Params {
			if p == x {
				if e.fn.Signature.Recv() != nil {
					return fmt.Sprintf("$%d", i)
				}
				return fmt.Sprintf("$%d", i+1)
			}
		}
		return "$" + x.Name()
	case *ssa.FreeVar:
		return "free:" + x.Name()
	case *ssa.Const:
		if x.Value == nil {
			return "nil"
		}
		if nt, ok := x.Type().(*types.Named); ok && nt.Obj().Name() == "VariantType" {
			if n, ok2 := constant.Int64Val(x.Value); ok2 {
				if name, ok3 := e.c.variantTypeNames()[n]; ok3 {
					return name
				}
			}
		}
		if x.Value.Kind() == constant.String {
			return fmt.Sprintf("%q", constant.StringVal(x.Value))
		}
		return x.Value.ExactString()
	case *ssa.Global:
		return x.Name()
	case *ssa.Function:
		return "func:" + x.Name()
	case *ssa.Builtin:
		return x.Name()
	case *ssa.MakeInterface:
		return e.render(x.X, depth)
	case *ssa.ChangeInterface:
		return e.render(x.X, depth)
	case *ssa.ChangeType:
		return e.renderConv(x.Type(), x.X, depth)
	case *ssa.Convert:
		return e.renderConv(x.Type(), x.X, depth)
	case *ssa.UnOp:
		if isBoolType(x.Type()) && x.Op == token.NOT {
			return e.boolString(v, depth)
		}
		if x.Op == token.MUL {
			return e.renderLoad(x.X, depth)
		}
		return fmt.Sprintf("%s%s", x.Op, e.render(x.X, depth-1))
	case *ssa.BinOp:
		if isBoolType(x.Type()) && isBoolType(x.X.Type()) {
			return e.boolString(v, depth)
		}
		return e.renderBin(x, depth)
	case *ssa.Phi:
		if isBoolType(x.Type()) {
			return e.boolString(v, depth)
		}
		if e.visiting == nil {
			e.visiting = map[ssa.Value]bool{}
		}
		if e.visiting[v] {
			return "loopvar"
		}
		e.visiting[v] = true
		defer delete(e.visiting, v)
		var parts []string
		seen := map[string]bool{}
		for _, ed := range x.Edges {
			s := e.render(ed, depth-1)
			if !seen[s] {
				seen[s] = true
				parts = append(parts, s)
			}
		}
		sort.Strings(parts)
		return "phi(" + strings.Join(parts, "|") + ")"
	case *ssa.Extract:
		s := e.render(x.Tuple, depth)
		if x.Index == 0 {
			return s
		}
		return fmt.Sprintf("%s#%d", s, x.Index)
	case *ssa.Call:
		return e.renderCall(x, depth)
	case *ssa.FieldAddr:
		return e.renderLoad(x, depth) + "&"
	case *ssa.Field:
		return fmt.Sprintf("%s.%s", e.render(x.X, depth-1), fieldName(x.X.Type(), x.Field))
	case *ssa.IndexAddr:
		return fmt.Sprintf("&%s[%s]", e.render(x.X, depth-1), e.render(x.Index, depth-1))
	case *ssa.Index:
		return fmt.Sprintf("%s[%s]", e.render(x.X, depth-1), e.render(x.Index, depth-1))
	case *ssa.Lookup:
		return fmt.Sprintf("%s[%s]", e.render(x.X, depth-1), e.render(x.Index, depth-1))
	case *ssa.Slice:
		lo, hi := "", ""
		if x.Low != nil {
			lo = e.render(x.Low, depth-1)
		}
		if x.High != nil {
			hi = e.render(x.High, depth-1)
		}
		return fmt.Sprintf("%s[%s:%s]", e.render(x.X, depth-1), lo, hi)
	case *ssa.Alloc:
		return "new<" + shortType(x.Type()) + ">"
	case *ssa.MakeSlice:
		return fmt.Sprintf("make<%s>(%s)", shortType(x.Type()), e.render(x.Len, depth-1))
	case *ssa.MakeMap:
		return "makemap"
	case *ssa.TypeAssert:
		return fmt.Sprintf("assert<%s>(%s)", shortType(x.AssertedType), e.render(x.X, depth-1))
	case *ssa.MakeClosure:
		return "closure:" + x.Fn.Name()
	case *ssa.Range, *ssa.Next:
		return "range"
	}
	return fmt.Sprintf("?%T", v)
}

func fieldName(t types.Type, idx int) string {
	if p, ok := t.Underlying().(*types.Pointer); ok {
		t = p.Elem()
	}
	if st, ok := t.Underlying().(*types.Struct); ok && idx < st.NumFields() {
		return st.Field(idx).Name()
	}
	return fmt.Sprintf("#%d", idx)
}

func (e *exprCtx) renderLoad(addr ssa.Value, depth int) string {
	switch a := addr.(type) {
	case *ssa.FieldAddr:
		return fmt.Sprintf("%s.%s", e.render(a.X, depth-1), fieldName(a.X.Type(), a.Field))
	case *ssa.IndexAddr:
		return fmt.Sprintf("%s[%s]", e.render(a.X, depth-1), e.render(a.Index, depth-1))
	case *ssa.Global:
		return a.Name()
	case *ssa.Alloc:
		// local spilled variable: render the unique stored value if there is exactly one store
		var stored ssa.Value
		n := 0
		for _, r := range *a.Referrers() {
			if st, ok := r.(*ssa.Store); ok && st.Addr == addr {
				stored = st.Val
				n++
			}
		}
		if n == 1 {
			return e.render(stored, depth-1)
		}
		return "local"
	}
	return "*" + e.render(addr, depth-1)
}

var commutative = map[token.Token]bool{token.ADD: true, token.MUL: true, token.AND: true, token.OR: true, token.XOR: true, token.EQL: true, token.NEQ: true}
var mirrored = map[token.Token]token.Token{token.LSS: token.GTR, token.GTR: token.LSS, token.LEQ: token.GEQ, token.GEQ: token.LEQ}

func (e *exprCtx) renderBin(x *ssa.BinOp, depth int) string {
	l, r := e.render(x.X, depth-1), e.render(x.Y, depth-1)
	op := x.Op
	// canonical operand order: commutative numeric operators and mirrored comparisons sort their operands
	isString := false
	if b, ok := x.X.Type().Underlying().(*types.Basic); ok && b.Info()&types.IsString != 0 {
		isString = true
	}
	if commutative[op] && !(isString && op == token.ADD) && l > r {
		l, r = r, l
	}
	if m, ok := mirrored[op]; ok && l > r {
		l, r, op = r, l, m
	}
	return fmt.Sprintf("(%s %s %s)", l, op, r)
}

func (e *exprCtx) renderCall(x *ssa.Call, depth int) string {
	cc := x.Common()
	var name string
	var args []ssa.Value
	if cc.IsInvoke() {
		name = cc.Method.Name()
		args = cc.Args
	} else if b, ok := cc.Value.(*ssa.Builtin); ok {
		name = b.Name()
		args = cc.Args
	} else if f := cc.StaticCallee(); f != nil {
		// a one-line expression helper of the module (no branches, no stores, no receiver state):
		// rendered as the expression it returns, with its parameters replaced by the arguments
		if s, ok := e.inlineExprHelper(f, cc.Args, depth); ok {
			return s
		}
		name = f.Name()
		if o := f.Object(); o != nil && o.Pkg() != nil && e.c.relPkg(o.Pkg()) == "" {
			name = o.Pkg().Name() + "." + name
			if r := recvNamed(o.(*types.Func)); r != "" {
				name = o.Pkg().Name() + "." + r + "." + f.Name()
			}
		}
		args = cc.Args
	} else {
		name = "dyn:" + e.render(cc.Value, depth-1)
		args = cc.Args
	}
	var parts []string
	for _, a := range args {
		parts = append(parts, e.render(a, depth-1))
	}
	return name + "(" + strings.Join(parts, ", ") + ")"
}

// ---- boolean folding ------------------------------------------------------------------------------

// boolString renders a boolean value built from !, ==/!= on booleans and short-circuit control flow
// as a truth table over its atoms: B[a;b]:0110 (rows in binary order of the sorted atom list, first
// atom = most significant bit). A single atom renders as itself or !itself.
func (e *exprCtx) boolString(v ssa.Value, depth int) string {
	var atoms []ssa.Value
	var atomStr []string
	find := func(x ssa.Value) int {
		for i, a := range atoms {
			if a == x || e.c.sameValue(a, x) {
				return i
			}
		}
		return -1
	}
	type needAtom struct{ v ssa.Value }
	var eval func(x ssa.Value, asg []bool, path map[*ssa.BasicBlock]*ssa.BasicBlock, fuel *int) bool
	eval = func(x ssa.Value, asg []bool, path map[*ssa.BasicBlock]*ssa.BasicBlock, fuel *int) bool {
		*fuel--
		if *fuel < 0 {
			panic("fuel")
		}
		switch y := x.(type) {
		case *ssa.Const:
			return constant.BoolVal(y.Value)
		case *ssa.UnOp:
			if y.Op == token.NOT {
				return !eval(y.X, asg, path, fuel)
			}
		case *ssa.BinOp:
			if isBoolType(y.X.Type()) && (y.Op == token.EQL || y.Op == token.NEQ) {
				a, b := eval(y.X, asg, path, fuel), eval(y.Y, asg, path, fuel)
				if y.Op == token.EQL {
					return a == b
				}
				return a != b
			}
		case *ssa.Phi:
			blk := y.Block()
			if _, onPath := path[blk]; !onPath {
				// simulate control flow from the immediate dominator to the phi's block
				start := blk.Idom()
				if start == nil {
					panic("noidom")
				}
				cur := start
				for cur != blk {
					*fuel--
					if *fuel < 0 {
						panic("fuel")
					}
					var next *ssa.BasicBlock
					switch t := cur.Instrs[len(cur.Instrs)-1].(type) {
					case *ssa.If:
						if eval(t.Cond, asg, path, fuel) {
							next = cur.Succs[0]
						} else {
							next = cur.Succs[1]
						}
					case *ssa.Jump:
						next = cur.Succs[0]
					default:
						panic("exit")
					}
					path[next] = cur
					cur = next
				}
			}
			pred := path[blk]
			for i, p := range blk.Preds {
				if p == pred {
					return eval(y.Edges[i], asg, path, fuel)
				}
			}
			panic("nopred")
		}
		i := find(x)
		if i < 0 {
			panic(needAtom{x})
		}
		return asg[i]
	}
	for tries := 0; tries < 8; tries++ {
		n := len(atoms)
		table := make([]byte, 1<<n)
		restart := false
		failed := ""
		func() {
			defer func() {
				if r := recover(); r != nil {
					if na, ok := r.(needAtom); ok {
						atoms = append(atoms, na.v)
						atomStr = append(atomStr, e.render(na.v, depth-1))
						restart = true
						return
					}
					failed = fmt.Sprint(r)
				}
			}()
			for row := 0; row < 1<<n; row++ {
				asg := make([]bool, n)
				for i := 0; i < n; i++ {
					asg[i] = row&(1<<(n-1-i)) != 0
				}
				fuel := 400
				if eval(v, asg, map[*ssa.BasicBlock]*ssa.BasicBlock{}, &fuel) {
					table[row] = '1'
				} else {
					table[row] = '0'
				}
			}
		}()
		if failed != "" {
			return "boolopaque(" + failed + ")"
		}
		if restart {
			if len(atoms) > 5 {
				return "boolopaque(too many atoms)"
			}
			continue
		}
		// canonical order: sort atoms by string and permute the table accordingly
		idx := make([]int, n)
		for i := range idx {
			idx[i] = i
		}
		sort.Slice(idx, func(a, b int) bool { return atomStr[idx[a]] < atomStr[idx[b]] })
		canon := make([]byte, 1<<n)
		for row := 0; row < 1<<n; row++ {
			// row is in canonical order; map to original assignment
			orig := 0
			for ci, oi := range idx {
				if row&(1<<(n-1-ci)) != 0 {
					orig |= 1 << (n - 1 - oi)
				}
			}
			canon[row] = table[orig]
		}
		var names []string
		for _, oi := range idx {
			names = append(names, atomStr[oi])
		}
		if n == 0 {
			if canon[0] == '1' {
				return "true"
			}
			return "false"
		}
		if n == 1 {
			switch string(canon) {
			case "01":
				return names[0]
			case "10":
				return "!" + names[0]
			}
		}
		return "B[" + strings.Join(names, ";") + "]:" + string(canon)
	}
	return "boolopaque(atoms)"
}

// inlineExprHelper: f is a module function consisting of a single block that computes one result from
// its parameters by pure operations (arithmetic, conversions, calls outside the module).
func (e *exprCtx) inlineExprHelper(f *ssa.Function, args []ssa.Value, depth int) (string, bool) {
	if e.inline || !e.c.InModule(f) || len(f.Blocks) != 1 || f.Signature.Recv() != nil || f.Signature.Results().Len() != 1 || len(f.Params) != len(args) || depth < 2 {
		return "", false
	}
	var ret *ssa.Return
	for _, in := range f.Blocks[0].Instrs {
		switch t := in.(type) {
		case *ssa.BinOp, *ssa.UnOp, *ssa.Convert, *ssa.ChangeType, *ssa.DebugRef:
			if u, ok := in.(*ssa.UnOp); ok && u.Op == token.MUL {
				return "", false // a load: not a pure function of the parameters
			}
		case *ssa.Call:
			g := t.Call.StaticCallee()
			if g == nil || e.c.InModule(g) {
				return "", false
			}
		case *ssa.Return:
			ret = t
		default:
			return "", false
		}
	}
	if ret == nil || len(ret.Results) != 1 {
		return "", false
	}
	sub := &exprCtx{c: e.c, fn: f, names: map[ssa.Value]string{}, inline: true, sub: map[ssa.Value]ssa.Value{}, parent: e}
	for i, p := range f.Params {
		sub.sub[p] = args[i]
	}
	return sub.render(ret.Results[0], depth-1), true
}

// signedIntWidth: byte width of a signed integer type (int counts as 8: the widest it can be).
func signedIntWidth(t types.Type) (int, bool) {
	b, ok := t.Underlying().(*types.Basic)
	if !ok {
		return 0, false
	}
	switch b.Kind() {
	case types.Int8:
		return 1, true
	case types.Int16:
		return 2, true
	case types.Int32:
		return 4, true
	case types.Int, types.Int64:
		return 8, true
	}
	return 0, false
}

// renderConv renders conv<T>(y); conv<T>(conv<U>(y)) = conv<T>(y) when the inner step is a lossless
// signed widening (or a change between types of the same representation).
func (e *exprCtx) renderConv(t types.Type, inner ssa.Value, depth int) string {
	ctx := e
	for {
		if r, ok := ctx.sub[inner]; ok && ctx.parent != nil {
			inner, ctx = r, ctx.parent
			continue
		}
		var src ssa.Value
		var mid types.Type
		switch ic := inner.(type) {
		case *ssa.Convert:
			src, mid = ic.X, ic.Type()
		case *ssa.ChangeType:
			src, mid = ic.X, ic.Type()
		}
		if src == nil {
			break
		}
		ws, okS := signedIntWidth(src.Type())
		wu, okU := signedIntWidth(mid)
		_, okT := signedIntWidth(t)
		if !(okS && okU && okT && wu >= ws) {
			break
		}
		inner = src
	}
	return fmt.Sprintf("conv<%s>(%s)", shortType(t), ctx.render(inner, depth-1))
}
