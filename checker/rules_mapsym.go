package main

import (
	"fmt"
	"go/token"
	"go/types"
	"sort"
	"strings"

	"golang.org/x/tools/go/ssa"
)

// ---------------------------------------------------------------------------------------------
// MAP — CharReferenceMap (C17); SYM — symbol trie (C16)
// ---------------------------------------------------------------------------------------------

const pkgUtil = "tokenizers/utilities"
const pkgGeneric = "tokenizers/generic"

func init() {
	register(&Rule{ID: "MAP.flow", Floor: 3,
		Doc: "every value Lookup can return is nil, an element of the direct table, or the reference stored in the matching interval (its field or the result of calling its accessor) — never a new object such as a bound method value",
		Run: ruleMapFlow})
	register(&Rule{ID: "MAP.order", Floor: 1,
		Doc: "the interval list is searched from the end new registrations are inserted at: (prepend, forward scan, first hit) or (append, backward scan), so the latest covering registration wins above the table boundary too",
		Run: ruleMapOrder})
	register(&Rule{ID: "MAP.split", Floor: 4,
		Doc: "one table boundary: the constant guarding the direct table in Lookup, the table length allocated by Clear, the loop bound and both clamps in AddInterval are the same constant; negative symbols yield nil; the table is indexed only below it",
		Run: ruleMapSplit})
	register(&Rule{ID: "MAP.disable", Floor: 2,
		Doc: "disabling a range stores an EMPTY (nil) reference and enabling stores a non-nil one, in every Set…Chars wrapper: readers test Lookup(x) != nil",
		Run: ruleMapDisable})
	register(&Rule{ID: "MAP.callers", Floor: 5,
		Doc: "every use of a Lookup result is a nil test or a comma-ok type assertion (a lookup can legitimately yield nil or a value of another kind)",
		Run: ruleMapCallers})
	register(&Rule{ID: "MAP.dispatch", Floor: 2,
		Doc: "the tokenizer's character dispatch is a pure function of the character map: GetCharacterState returns the (comma-ok asserted) result of Lookup on the instance's map and writes nothing, SetCharacterState / ClearCharacterStates only forward to the map — no second copy of the table can go stale",
		Run: ruleMapDispatch})
	register(&Rule{ID: "SYM.valid", Floor: 4,
		Doc: "only complete symbols are marked valid and typed: valid/tokenType are written in the terminal step of AddDescendantLine (remaining text empty) with the caller's type, and for a first character in Add only while its type is still Unknown, with the constants (true, Symbol); a token's type and text are taken from the same node",
		Run: ruleSymValid})
	register(&Rule{ID: "SYM.ancestry", Floor: 1,
		Doc: "ownership of the memoised symbol text: a node appends its character only to a slice it owns (a fresh copy of the parent's text), never to the parent's slice itself — otherwise sibling nodes share one backing array and overwrite each other's text",
		Run: ruleSymAncestry})
	register(&Rule{ID: "SCAN.symbol", Floor: 5,
		Doc: "per trie level: DeepestRead reads exactly one character and un-reads it exactly when it does not descend; UnreadToValid un-reads exactly one character per step towards the root; the root reads one character and either walks the trie or returns that single character",
		Run: ruleScanSymbol})
}

func ruleMapFlow(c *Ctx) []*Obligation {
	o := newObl("MAP.flow")
	fn := c.MustFunc(pkgUtil, "CharReferenceMap", "Lookup")
	ex := c.newExpr(fn)
	n := 0
	for _, ret := range returnsOf(fn) {
		for _, leaf := range phiLeaves(ret.Results[0]) {
			n++
			key := fmt.Sprintf("%s#return#%d", c.FuncKey(fn), n)
			v := leaf
			if mi, ok := v.(*ssa.MakeInterface); ok {
				v = mi.X
			}
			switch x := v.(type) {
			case *ssa.Const:
				if x.Value == nil {
					o.triv(key, c.Pos(ret.Pos()), "nil")
					continue
				}
			case *ssa.UnOp:
				if x.Op == token.MUL {
					if ia, ok := x.X.(*ssa.IndexAddr); ok {
						if ld, ok := ia.X.(*ssa.UnOp); ok {
							if fa, ok := ld.X.(*ssa.FieldAddr); ok && fa.X == ssa.Value(fn.Params[0]) {
								o.ok(key, c.Pos(ret.Pos()), "element of the receiver's table "+fieldName(fa.X.Type(), fa.Field))
								continue
							}
						}
					}
					if fa, ok := x.X.(*ssa.FieldAddr); ok && fieldName(fa.X.Type(), fa.Field) == "reference" {
						o.ok(key, c.Pos(ret.Pos()), "the interval's stored reference (field)")
						continue
					}
				}
			case *ssa.Call:
				if g := x.Call.StaticCallee(); g != nil && c.FuncKey(g) == pkgUtil+".(*CharReferenceInterval).Reference" {
					// the accessor must return the stored field
					okAcc := false
					for _, r2 := range returnsOf(g) {
						if ld, ok := r2.Results[0].(*ssa.UnOp); ok {
							if fa, ok := ld.X.(*ssa.FieldAddr); ok && fieldName(fa.X.Type(), fa.Field) == "reference" {
								okAcc = true
							}
						}
					}
					if okAcc {
						o.ok(key, c.Pos(ret.Pos()), "the interval's stored reference (accessor call)")
						continue
					}
				}
			}
			o.bad(key, c.Pos(ret.Pos()), "Lookup returns "+ex.str(leaf)+", which is neither nil, a table element nor the interval's stored reference: callers get an object that is never nil and never the registered state (characters above the table boundary lose their state; a nil registration cannot disable)")
		}
	}
	return o.list
}

func ruleMapOrder(c *Ctx) []*Obligation {
	o := newObl("MAP.order")
	add := c.MustFunc(pkgUtil, "CharReferenceMap", "AddInterval")
	look := c.MustFunc(pkgUtil, "CharReferenceMap", "Lookup")
	key := "utilities.CharReferenceMap#otherIntervals#insert-vs-search"
	// AddInterval and Lookup evaluated abstractly above the table boundary: short histories of
	// registrations (ranges are concrete numbers, references are symbols or nil, interval objects live in
	// the interpreter's heap, every method of the map and of the intervals is executed in place) followed
	// by lookups; the answer must be the reference of the latest registration covering the character.
	type reg struct {
		lo, hi int64
		ref    string // "" = nil reference
	}
	type probe struct {
		ch   int64
		want string // "" = nil
	}
	run := func(regs []reg, probes []probe) (string, string) {
		fields := map[string]aiVal{"otherIntervals": {kind: "list"}}
		nobj := 0
		inline := func(g *ssa.Function) bool {
			r := recvNamedFn(g)
			return r == "CharReferenceMap" || r == "CharReferenceInterval" || g.Name() == "NewCharReferenceInterval"
		}
		for _, r := range regs {
			ai := &absInterp{c: c, fn: add, env: map[ssa.Value]aiVal{}, fields: fields, nobj: nobj}
			if len(add.Params) < 4 {
				return "", "AddInterval has an unexpected signature"
			}
			ai.env[add.Params[0]] = aiSym("map")
			ai.env[add.Params[1]] = aiInt(r.lo)
			ai.env[add.Params[2]] = aiInt(r.hi)
			if r.ref == "" {
				ai.env[add.Params[3]] = aiNil()
			} else {
				ai.env[add.Params[3]] = aiSym(r.ref)
			}
			ai.inline = inline
			out := ai.run(add.Blocks[0], nil, 0)
			if out.kind != "return" {
				return "", "AddInterval: " + out.why
			}
			nobj = ai.nobj
		}
		for _, pr := range probes {
			ai := &absInterp{c: c, fn: look, env: map[ssa.Value]aiVal{}, fields: fields, nobj: nobj}
			ai.env[look.Params[0]] = aiSym("map")
			ai.env[look.Params[1]] = aiInt(pr.ch)
			ai.inline = inline
			out := ai.run(look.Blocks[0], nil, 0)
			if out.kind != "return" || len(out.ret) != 1 {
				return "", "Lookup: " + out.why
			}
			got := ""
			switch out.ret[0].kind {
			case "nil":
			case "sym":
				got = out.ret[0].s
			default:
				return "", "Lookup returns a value outside the model"
			}
			if got != pr.want {
				show := func(s string) string {
					if s == "" {
						return "nothing"
					}
					return s
				}
				var hist []string
				for _, r := range regs {
					hist = append(hist, fmt.Sprintf("%s over U+%04X..U+%04X", show(r.ref), r.lo, r.hi))
				}
				return fmt.Sprintf("after registering %s, Lookup(U+%04X) answers %s; the latest covering registration is %s", strings.Join(hist, ", then "), pr.ch, show(got), show(pr.want)), ""
			}
		}
		return "", ""
	}
	histories := []struct {
		regs   []reg
		probes []probe
	}{
		{[]reg{{0x200, 0x400, "A"}, {0x300, 0x500, "B"}}, []probe{{0x250, "A"}, {0x350, "B"}, {0x450, "B"}, {0x600, ""}}},
		{[]reg{{0x200, 0x400, "A"}, {0x300, 0x500, ""}}, []probe{{0x250, "A"}, {0x350, ""}, {0x450, ""}}},
		{[]reg{{0x200, 0x400, "A"}, {0x300, 0x500, "B"}, {0x300, 0x350, "A"}}, []probe{{0x320, "A"}, {0x360, "B"}, {0x250, "A"}}},
		{[]reg{{0x200, 0x400, "A"}, {0x200, 0x400, "A"}, {0x300, 0x300, "B"}}, []probe{{0x300, "B"}, {0x301, "A"}}},
	}
	n := 0
	for _, h := range histories {
		n += len(h.probes)
		bad, undec := run(h.regs, h.probes)
		if undec != "" {
			o.undecided(key, c.Pos(add.Pos()), undec)
			return o.list
		}
		if bad != "" {
			o.bad(key, c.Pos(add.Pos()), bad+": above the table boundary the map does not answer with the latest covering registration, while the table below the boundary does")
			return o.list
		}
	}
	o.ok(key, c.Pos(add.Pos()), fmt.Sprintf("%d abstract registration histories, %d lookups: above the table boundary the latest covering registration (a nil one included) answers", len(histories), n))
	return o.list
}

func ruleMapSplit(c *Ctx) []*Obligation {
	o := newObl("MAP.split")
	look := c.MustFunc(pkgUtil, "CharReferenceMap", "Lookup")
	add := c.MustFunc(pkgUtil, "CharReferenceMap", "AddInterval")
	clr := c.MustFunc(pkgUtil, "CharReferenceMap", "Clear")
	// table length
	var tlen int64 = -1
	for _, b := range clr.Blocks {
		for _, in := range b.Instrs {
			if st, ok := in.(*ssa.Store); ok {
				if fa, ok := st.Addr.(*ssa.FieldAddr); ok && fieldName(fa.X.Type(), fa.Field) == "initialInterval" {
					ld := &ssa.UnOp{}
					_ = ld
					if sl, ok := st.Val.(*ssa.Slice); ok {
						if al, ok := sl.X.(*ssa.Alloc); ok {
							if n, ok := arrayLen(al.Type()); ok {
								tlen = n
								if sl.High != nil {
									if hk, isK := constInt(sl.High); isK {
										tlen = hk
									}
								}
							}
						}
					}
					if ms, ok := st.Val.(*ssa.MakeSlice); ok {
						if k, isK := constInt(ms.Len); isK {
							tlen = k
						}
					}
				}
			}
		}
	}
	key := "utilities.CharReferenceMap#boundary"
	if tlen <= 0 {
		o.bad(key+"#table-length", c.Pos(clr.Pos()), "Clear does not allocate the direct table with a constant length")
		return o.list
	}
	o.ok(key+"#table-length", c.Pos(clr.Pos()), fmt.Sprintf("Clear allocates a table of %d entries", tlen))
	// Lookup: symbol < 0 → nil ; symbol < K → table
	negNil, tableK := false, int64(-1)
	for _, b := range look.Blocks {
		ifi, ok := b.Instrs[len(b.Instrs)-1].(*ssa.If)
		if !ok {
			continue
		}
		bo, ok := ifi.Cond.(*ssa.BinOp)
		if !ok || stripConv(bo.X) != ssa.Value(look.Params[1]) {
			continue
		}
		k, isK := constInt(bo.Y)
		if !isK {
			continue
		}
		if bo.Op == token.LSS && k == 0 {
			if ret, ok := b.Succs[0].Instrs[len(b.Succs[0].Instrs)-1].(*ssa.Return); ok && isNilConst(ret.Results[0]) {
				negNil = true
			}
		} else if bo.Op == token.LSS {
			tableK = k
		} else if bo.Op == token.LEQ {
			tableK = k + 1
		}
	}
	o.check(negNil, key+"#negative-nil", c.Pos(look.Pos()), "Lookup returns nil for negative symbols (the end-of-input marker has no state)", "Lookup no longer answers nil for a negative symbol: loops of the form `for Lookup(x) != nil` do not stop at the end of input")
	if tableK == tlen {
		o.ok(key+"#lookup", c.Pos(look.Pos()), fmt.Sprintf("Lookup uses the table exactly for symbols below %d", tableK))
	} else {
		o.bad(key+"#lookup", c.Pos(look.Pos()), fmt.Sprintf("Lookup uses the direct table for symbols below %d but the table has %d entries: the boundary character is looked up in the wrong half (out of range, or never found)", tableK, tlen))
	}
	// AddInterval: constants compared with start/end/index, except the 0xFFFF/0xFFFE range clamp
	var ks []int64
	for _, b := range add.Blocks {
		for _, in := range b.Instrs {
			bo, ok := in.(*ssa.BinOp)
			if !ok {
				continue
			}
			switch bo.Op {
			case token.LSS, token.LEQ, token.GTR, token.GEQ:
			default:
				continue
			}
			k, isK := constInt(bo.Y)
			if !isK || k >= 0xfffe {
				continue
			}
			if bo.Op == token.LEQ || bo.Op == token.GTR {
				k++
			}
			ks = append(ks, k)
		}
	}
	// the clamp `start = K`
	for _, b := range add.Blocks {
		for _, in := range b.Instrs {
			if phi, ok := in.(*ssa.Phi); ok && phi.Comment == "start" {
				for _, e := range phi.Edges {
					if k, isK := constInt(e); isK {
						ks = append(ks, k)
					}
				}
			}
		}
	}
	bad := ""
	for _, k := range ks {
		if k != tlen {
			bad = fmt.Sprintf("AddInterval uses boundary %d where the table has %d entries", k, tlen)
		}
	}
	if len(ks) < 3 {
		bad = "AddInterval no longer splits a range at the table boundary (loop bound, interval test and start clamp expected)"
	}
	if bad != "" {
		o.bad(key+"#addinterval", c.Pos(add.Pos()), bad+": a range spanning the boundary leaves a character unregistered or indexes past the table")
	} else {
		o.ok(key+"#addinterval", c.Pos(add.Pos()), fmt.Sprintf("%d boundary constants in AddInterval all equal the table length %d", len(ks), tlen))
	}
	return o.list
}

func ruleMapDisable(c *Ctx) []*Obligation {
	o := newObl("MAP.disable")
	for _, fn := range c.AllLibFuncs() {
		if !strings.HasPrefix(fn.Name(), "Set") || !strings.HasSuffix(fn.Name(), "Chars") {
			continue
		}
		var enable *ssa.Parameter
		for _, p := range fn.Params {
			if isBoolType(p.Type()) {
				enable = p
			}
		}
		if enable == nil {
			continue
		}
		key := c.FuncKey(fn) + "#enable-to-reference"
		onNonNil, offNil, n := false, false, 0
		bad := ""
		// does a set of guards fix `enable`? 0 = no, 1 = true, 2 = false
		sideOf := func(gs []guard) int {
			side := 0
			for _, g := range gs {
				cond, truth := g.atom()
				if cond == ssa.Value(enable) {
					if truth {
						side = 1
					} else {
						side = 2
					}
				}
			}
			return side
		}
		// the values ref can take when enable has the given side (1 true / 2 false), with their nil-ness
		var valuesUnder func(ref ssa.Value, gs []guard, side int, depth int) (nils, nonNils, unknown int)
		valuesUnder = func(ref ssa.Value, gs []guard, side int, depth int) (nils, nonNils, unknown int) {
			if s0 := sideOf(gs); s0 != 0 && s0 != side {
				return 0, 0, 0 // infeasible for this side
			}
			if phi, ok := ref.(*ssa.Phi); ok && depth > 0 {
				for i, e := range phi.Edges {
					a, b2, u := valuesUnder(e, guardsOnEdge(phi.Block().Preds[i], phi.Block()), side, depth-1)
					nils, nonNils, unknown = nils+a, nonNils+b2, unknown+u
				}
				return
			}
			switch {
			case isNilConst(ref):
				return 1, 0, 0
			case c.certainlyNonNil(ref, gs, 4):
				return 0, 1, 0
			}
			return 0, 0, 1
		}
		for _, ci := range allCalls(fn) {
			cc, ok := c.callTo(ci, pkgUtil, "CharReferenceMap", "AddInterval")
			if !ok {
				continue
			}
			n++
			ref := callArgs(cc)[2]
			gs := guardsAt(ci.Block())
			nilT, nonT, unkT := valuesUnder(ref, gs, 1, 3)
			nilF, nonF, unkF := valuesUnder(ref, gs, 2, 3)
			depends := sideOf(gs) != 0
			if phi, ok := ref.(*ssa.Phi); ok {
				for i := range phi.Edges {
					if sideOf(guardsOnEdge(phi.Block().Preds[i], phi.Block())) != 0 {
						depends = true
					}
				}
			}
			switch {
			case !depends:
				bad = "the reference registered does not depend on a test of `enable` (a non-nil value such as `false` is stored when disabling)"
			case unkT+unkF > 0:
				bad = "the reference registered is neither a nil nor a visibly non-nil value"
			case nilT > 0:
				bad = "enabling stores a nil reference"
			case nonF > 0:
				bad = "disabling stores a non-nil reference"
			}
			if nonT > 0 {
				onNonNil = true
			}
			if nilF > 0 {
				offNil = true
			}
		}
		if n == 0 {
			continue
		}
		if bad == "" && (!onNonNil || !offNil) {
			bad = "enable/disable are not both mapped to non-nil/nil references"
		}
		if bad != "" {
			o.bad(key, c.Pos(fn.Pos()), bad+": readers test Lookup(x) != nil, so the range stays enabled")
		} else {
			o.ok(key, c.Pos(fn.Pos()), "enable → non-nil reference, disable → nil reference")
		}
	}
	return o.list
}

func ruleMapCallers(c *Ctx) []*Obligation {
	o := newObl("MAP.callers")
	for _, fn := range c.AllLibFuncs() {
		n := 0
		for _, ci := range allCalls(fn) {
			if _, ok := c.callTo(ci, pkgUtil, "CharReferenceMap", "Lookup"); !ok {
				continue
			}
			call := ci.(*ssa.Call)
			n++
			key := fmt.Sprintf("%s#Lookup-use#%d", c.FuncKey(fn), n)
			bad := ""
			for _, r := range *call.Referrers() {
				switch u := r.(type) {
				case *ssa.BinOp:
					if !isNilConst(u.X) && !isNilConst(u.Y) {
						bad = "compared with something other than nil"
					}
				case *ssa.TypeAssert:
					if !u.CommaOk {
						bad = "type-asserted without comma-ok (panics on nil or on another kind of reference)"
					}
				case *ssa.Return, *ssa.Phi, *ssa.DebugRef:
				default:
					bad = fmt.Sprintf("used by %T", r)
				}
			}
			if bad != "" {
				o.bad(key, c.Pos(ci.Pos()), "the lookup result is "+bad)
			} else {
				o.ok(key, c.Pos(ci.Pos()), "result only nil-tested / comma-ok asserted")
			}
		}
	}
	return o.list
}

// ---- SYM ------------------------------------------------------------------------------------------------

func ruleSymValid(c *Ctx) []*Obligation {
	o := newObl("SYM.valid")
	symK, _ := c.constByName("tokenizers", "Symbol")
	unkK, _ := c.constByName("tokenizers", "Unknown")
	// (1) direct stores to valid / tokenType
	for _, fn := range c.methodsOfType(pkgGeneric, "SymbolNode") {
		for _, b := range fn.Blocks {
			for _, in := range b.Instrs {
				st, ok := in.(*ssa.Store)
				if !ok {
					continue
				}
				fa, ok := st.Addr.(*ssa.FieldAddr)
				if !ok {
					continue
				}
				fname := fieldName(fa.X.Type(), fa.Field)
				if fname != "valid" && fname != "tokenType" {
					continue
				}
				key := fmt.Sprintf("%s#store#%s", c.FuncKey(fn), fname)
				switch fn.Name() {
				case "SetValid", "SetTokenType":
					o.triv(key, c.Pos(st.Pos()), "setter (call sites checked below)")
				case "AddDescendantLine":
					// under len(value) > 0 false
					okG := false
					for _, g := range guardsAt(b) {
						cond, truth := g.atom()
						if bo, ok := cond.(*ssa.BinOp); ok {
							if call, ok := bo.X.(*ssa.Call); ok {
								if bi, ok := call.Call.Value.(*ssa.Builtin); ok && bi.Name() == "len" {
									k, isK := constInt(bo.Y)
									if isK && k == 0 && ((bo.Op == token.GTR && !truth) || (bo.Op == token.EQL && truth)) {
										okG = true
									}
								}
							}
						}
					}
					valOK := true
					if fname == "valid" {
						if k, ok := st.Val.(*ssa.Const); !ok || k.Value == nil || k.Value.String() != "true" {
							valOK = false
						}
					} else if paramIndex(fn, st.Val) < 0 {
						valOK = false
					}
					if okG && valOK {
						o.ok(key, c.Pos(st.Pos()), "written only when the remaining text is empty (the node completes a registered symbol), with the registered type")
					} else {
						o.bad(key, c.Pos(st.Pos()), fname+" is written for a node that does not complete a registered symbol (or not with the registered type): a proper prefix of a symbol becomes a token of its own")
					}
				default:
					if fn.Name() == "NewSymbolNode" {
						continue
					}
					o.bad(key, c.Pos(st.Pos()), fname+" is written in "+fn.Name()+", outside the registration path")
				}
			}
		}
	}
	// constructor initial type Unknown
	ctor := c.MustFunc(pkgGeneric, "", "NewSymbolNode")
	okCtor := false
	for _, b := range ctor.Blocks {
		for _, in := range b.Instrs {
			if st, ok := in.(*ssa.Store); ok {
				if fa, ok := st.Addr.(*ssa.FieldAddr); ok && fieldName(fa.X.Type(), fa.Field) == "tokenType" {
					if k, isK := constInt(st.Val); isK && k == unkK {
						okCtor = true
					}
				}
			}
		}
	}
	o.check(okCtor, c.FuncKey(ctor)+"#initial-type", c.Pos(ctor.Pos()), "new nodes start with type Unknown and valid=false", "new nodes no longer start as Unknown/invalid")
	// (2) setter call sites
	for _, fn := range c.AllLibFuncs() {
		for _, ci := range allCalls(fn) {
			f := calleeObj(ci.Common())
			if f == nil || recvNamed(f) != "SymbolNode" || (f.Name() != "SetValid" && f.Name() != "SetTokenType") {
				continue
			}
			key := fmt.Sprintf("%s#call#%s", c.FuncKey(fn), f.Name())
			arg := callArgs(ci.Common())[0]
			okArg := false
			if f.Name() == "SetValid" {
				if k, ok := arg.(*ssa.Const); ok && k.Value != nil && k.Value.String() == "true" {
					okArg = true
				}
			} else if k, isK := constInt(arg); isK && k == symK {
				okArg = true
			}
			okGuard := false
			for _, g := range guardsAt(ci.Block()) {
				cond, truth := g.atom()
				if bo, ok := cond.(*ssa.BinOp); ok && bo.Op == token.EQL && truth {
					if k, isK := constInt(bo.Y); isK && k == unkK {
						if call, ok := bo.X.(*ssa.Call); ok {
							if g2 := calleeObj(call.Common()); g2 != nil && g2.Name() == "TokenType" && c.sameValue(callRecv(call.Common()), callRecv(ci.Common())) {
								okGuard = true
							}
						}
					}
				}
			}
			inAdd := strings.HasSuffix(c.FuncKey(fn), "(*SymbolRootNode).Add")
			if inAdd && okArg && okGuard {
				o.ok(key, c.Pos(ci.Pos()), "first-character node defaulted to (valid, Symbol) only while its type is still Unknown")
			} else {
				o.bad(key, c.Pos(ci.Pos()), "a first-character node must get exactly (true, Symbol) and only while its own type is Unknown; otherwise an unregistered first character inherits a longer symbol's type or a registered one is overwritten")
			}
		}
	}
	// (3) token type and text from the same node
	nt := c.MustFunc(pkgGeneric, "SymbolRootNode", "NextToken")
	for _, ci := range allCalls(nt) {
		cc, ok := c.callTo(ci, "tokenizers", "", "NewToken")
		if !ok {
			continue
		}
		tcall, isT := cc.Args[0].(*ssa.Call)
		if !isT {
			continue // the single-character fallback uses the constant Symbol
		}
		key := c.FuncKey(nt) + "#type-and-text-same-node"
		node := callRecv(tcall.Common())
		textFromNode := backwardSliceHas(cc.Args[1], func(v ssa.Value) bool {
			if call, ok := v.(*ssa.Call); ok {
				if g := calleeObj(call.Common()); g != nil && g.Name() == "Ancestry" && callRecv(call.Common()) == node {
					return true
				}
			}
			return false
		})
		fromUnwind := false
		if nc, ok := node.(*ssa.Call); ok {
			if g := calleeObj(nc.Common()); g != nil && g.Name() == "UnreadToValid" {
				fromUnwind = true
			}
		}
		o.check(textFromNode && fromUnwind, key, c.Pos(ci.Pos()), "type and text both come from the node the unwinding stopped at", "the token's type and text are not both taken from the node returned by UnreadToValid")
	}
	return o.list
}

func ruleSymAncestry(c *Ctx) []*Obligation {
	o := newObl("SYM.ancestry")
	fn := c.MustFunc(pkgGeneric, "SymbolNode", "Ancestry")
	key := c.FuncKey(fn) + "#append-to-owned-slice"
	// values stored into c.ancestry
	foreign := false
	foreignDesc := ""
	ex := c.newExpr(fn)
	// a slice value whose backing array was allocated in this call (or nil): make, a slice literal,
	// nil, append(fresh, …) (grows in or out of an array this call owns), a phi of such values
	var isFresh func(v ssa.Value, depth int) bool
	isFresh = func(v ssa.Value, depth int) bool {
		if depth <= 0 {
			return false
		}
		switch x := v.(type) {
		case *ssa.MakeSlice:
			return true
		case *ssa.Slice:
			if _, isAlloc := x.X.(*ssa.Alloc); isAlloc {
				return true
			}
			return isFresh(x.X, depth-1)
		case *ssa.Const:
			return x.Value == nil
		case *ssa.UnOp:
			// the node's own ancestry field: whatever it holds is the node's
			if fa, ok := x.X.(*ssa.FieldAddr); ok && x.Op == token.MUL && fieldName(fa.X.Type(), fa.Field) == "ancestry" && fa.X == ssa.Value(fn.Params[0]) {
				return true
			}
		case *ssa.Phi:
			for _, e := range x.Edges {
				if !isFresh(e, depth-1) {
					return false
				}
			}
			return true
		case *ssa.Call:
			if bi, ok := x.Call.Value.(*ssa.Builtin); ok && bi.Name() == "append" {
				return isFresh(x.Call.Args[0], depth-1)
			}
		}
		return false
	}
	appendFound := false
	for _, b := range fn.Blocks {
		for _, in := range b.Instrs {
			st, ok := in.(*ssa.Store)
			if !ok {
				continue
			}
			fa, ok := st.Addr.(*ssa.FieldAddr)
			if !ok || fieldName(fa.X.Type(), fa.Field) != "ancestry" {
				continue
			}
			if call, ok := st.Val.(*ssa.Call); ok {
				if bi, ok := call.Call.Value.(*ssa.Builtin); ok && bi.Name() == "append" {
					a0 := call.Call.Args[0]
					// own field load → depends on what the field holds; fresh → fine
					if ld, ok := a0.(*ssa.UnOp); ok {
						if fa2, ok := ld.X.(*ssa.FieldAddr); ok && fieldName(fa2.X.Type(), fa2.Field) == "ancestry" && fa2.X == ssa.Value(fn.Params[0]) {
							appendFound = true
							continue
						}
					}
					if isFresh(call, 6) {
						appendFound = true
						continue
					}
				}
			}
			if isFresh(st.Val, 6) {
				// the character may have been appended before the store (built in a local first)
				if backwardSliceHas(st.Val, func(v ssa.Value) bool {
					call, ok := v.(*ssa.Call)
					if !ok {
						return false
					}
					bi, ok := call.Call.Value.(*ssa.Builtin)
					return ok && bi.Name() == "append"
				}) {
					appendFound = true
				}
				continue
			}
			foreign = true
			foreignDesc = ex.str(st.Val)
		}
	}
	// copy(dst, src) into a fresh make is also accepted: then the store is a MakeSlice (fresh)
	switch {
	case foreign:
		o.bad(key, c.Pos(fn.Pos()), "the node stores "+foreignDesc+" — a slice owned by another node — in its own ancestry and then appends its character to it: siblings append into the same backing array, so after '<>' was read the text of '<=' changes")
	case !appendFound:
		o.undecided(key, c.Pos(fn.Pos()), "the append of the node's character was not found")
	default:
		o.ok(key, c.Pos(fn.Pos()), "the character is appended to a slice the node owns (fresh copy of the parent's text)")
	}
	return o.list
}

// countScannerOps enumerates acyclic paths and reports, per return, the (reads, unreads) pairs seen.
type pathCount struct {
	ret     *ssa.Return
	reads   int
	unreads int
}

func (c *Ctx) scannerPathCounts(fn *ssa.Function) []pathCount {
	var out []pathCount
	var walk func(b *ssa.BasicBlock, reads, unreads int, seen map[*ssa.BasicBlock]bool)
	walk = func(b *ssa.BasicBlock, reads, unreads int, seen map[*ssa.BasicBlock]bool) {
		if seen[b] {
			return
		}
		seen[b] = true
		defer delete(seen, b)
		for _, in := range b.Instrs {
			if call, ok := in.(*ssa.Call); ok && call.Call.IsInvoke() && strings.HasSuffix(call.Call.Value.Type().String(), "io.IScanner") {
				switch call.Call.Method.Name() {
				case "Read":
					reads++
				case "Unread":
					unreads++
				case "UnreadMany":
					unreads += 100
				}
			}
			if ret, ok := in.(*ssa.Return); ok {
				out = append(out, pathCount{ret, reads, unreads})
			}
		}
		for _, s := range b.Succs {
			walk(s, reads, unreads, seen)
		}
	}
	walk(fn.Blocks[0], 0, 0, map[*ssa.BasicBlock]bool{})
	return out
}

func ruleScanSymbol(c *Ctx) []*Obligation {
	o := newObl("SCAN.symbol")
	deep := c.MustFunc(pkgGeneric, "SymbolNode", "DeepestRead")
	unw := c.MustFunc(pkgGeneric, "SymbolNode", "UnreadToValid")
	root := c.MustFunc(pkgGeneric, "SymbolRootNode", "NextToken")
	// Invariant of both walks, in either spelling (recursive or iterative): relative to the entry, the
	// number of characters consumed and not pushed back equals the number of trie levels the returned
	// node lies below the receiver (negative = above). Decided by abstract interpretation of the
	// function over (net characters consumed, level of each node value), re-based on the current node
	// at every loop head so that the state space is finite.
	report := func(fn *ssa.Function, wantDescent bool, what string) {
		key := c.FuncKey(fn) + "#per-level-balance"
		res := c.levelBalance(fn)
		switch {
		case res.undecided != "":
			o.undecided(key, c.Pos(fn.Pos()), res.undecided)
		case res.bad != "":
			o.bad(key, c.Pos(fn.Pos()), res.bad+": "+what)
		case wantDescent && !res.descends:
			o.bad(key, c.Pos(fn.Pos()), "the walk never descends to a child found for the character read: "+what)
		case !wantDescent && !res.ascends:
			o.bad(key, c.Pos(fn.Pos()), "the walk never steps to the parent: "+what)
		default:
			o.ok(key, c.Pos(fn.Pos()), fmt.Sprintf("%d return path(s) explored, on each the net characters consumed equal the levels moved: %s", res.returns, what))
		}
	}
	report(deep, true, "one character is read per level and pushed back exactly when the walk stops (end of input included)")
	report(unw, false, "one character is pushed back per step from an invalid node to its parent")
	// where the unwinding stops: evaluated abstractly on chains root ← n1 ← n2 ← n3 (objects in the
	// interpreter's heap) for every validity pattern: the result is the nearest valid node at or above
	// the start (the root if none), with one push-back per step
	{
		key := c.FuncKey(unw) + "#stops-at-nearest-valid"
		bad, undec, runs := "", "", 0
		for pattern := 0; pattern < 8 && bad == ""; pattern++ {
			for start := 1; start <= 3 && bad == ""; start++ {
				runs++
				valid := func(i int) bool { return i >= 1 && pattern&(1<<(i-1)) != 0 }
				unreads := 0
				ai := &absInterp{c: c, fn: unw, env: map[ssa.Value]aiVal{}, fields: map[string]aiVal{}}
				for i := 0; i <= 3; i++ {
					n := fmt.Sprintf("n%d", i)
					ai.fields[n+".valid"] = aiBool(valid(i))
					if i == 0 {
						ai.fields[n+".parent"] = aiNil()
					} else {
						ai.fields[n+".parent"] = aiSym(fmt.Sprintf("n%d", i-1))
					}
				}
				ai.env[unw.Params[0]] = aiSym(fmt.Sprintf("n%d", start))
				ai.inline = func(g *ssa.Function) bool { return recvNamedFn(g) == "SymbolNode" }
				ai.call = func(ai *absInterp, call *ssa.Call) (aiVal, bool) {
					if call.Call.IsInvoke() && call.Call.Method.Name() == "Unread" {
						unreads++
						return aiUnknown(), true
					}
					return aiVal{}, false
				}
				out := ai.run(unw.Blocks[0], nil, 0)
				if out.kind != "return" || len(out.ret) != 1 || out.ret[0].kind != "sym" {
					undec = "UnreadToValid: " + out.why
					continue
				}
				want := 0
				for i := start; i >= 1; i-- {
					if valid(i) {
						want = i
						break
					}
				}
				got := out.ret[0].s
				if got != fmt.Sprintf("n%d", want) || unreads != start-want {
					var vs []string
					for i := 1; i <= 3; i++ {
						vs = append(vs, fmt.Sprintf("n%d valid=%v", i, valid(i)))
					}
					bad = fmt.Sprintf("starting at n%d on the chain root←n1←n2←n3 (%s) the unwinding returns %s after %d push-back(s); the nearest valid node at or above the start is n%d, %d level(s) up: an unregistered prefix is returned as a symbol (or too many / too few characters stay consumed)", start, strings.Join(vs, ", "), got, unreads, want, start-want)
				}
			}
		}
		switch {
		case bad != "":
			o.bad(key, c.Pos(unw.Pos()), bad)
		case undec != "":
			o.undecided(key, c.Pos(unw.Pos()), undec)
		default:
			o.ok(key, c.Pos(unw.Pos()), fmt.Sprintf("%d abstract runs over all validity patterns of a 3-level chain", runs))
		}
	}
	// root: one Read; the trie path calls DeepestRead then UnreadToValid on its result; the fallback token is the single character read
	reads := 0
	var readCall *ssa.Call
	for _, ci := range allCalls(root) {
		if call, ok := ci.(*ssa.Call); ok && call.Call.IsInvoke() && call.Call.Method.Name() == "Read" {
			reads++
			readCall = call
		}
		if call, ok := ci.(*ssa.Call); ok && call.Call.IsInvoke() && (call.Call.Method.Name() == "Unread" || call.Call.Method.Name() == "UnreadMany") {
			reads += 100
		}
	}
	o.check(reads == 1, c.FuncKey(root)+"#one-read", c.Pos(root.Pos()), "the root reads exactly one character itself", "the root node must read exactly one character and push nothing back itself")
	chain := false
	var deepCall *ssa.Call
	for _, ci := range allCalls(root) {
		if g := ci.Common().StaticCallee(); g == deep {
			deepCall = ci.(*ssa.Call)
		}
		if g := ci.Common().StaticCallee(); g == unw && deepCall != nil && callRecv(ci.Common()) == ssa.Value(deepCall) {
			chain = true
		}
	}
	o.check(chain, c.FuncKey(root)+"#deepest-then-unwind", c.Pos(root.Pos()), "DeepestRead's result is unwound with UnreadToValid", "the deepest node is not unwound to a valid ancestor before the token is built")
	// fallback token = the character read
	fb := false
	for _, ci := range allCalls(root) {
		cc, ok := c.callTo(ci, "tokenizers", "", "NewToken")
		if !ok {
			continue
		}
		if _, isK := constInt(cc.Args[0]); !isK {
			continue
		}
		if readCall != nil && backwardSliceHas(cc.Args[1], func(v ssa.Value) bool { return v == ssa.Value(readCall) }) || storedInto(cc.Args[1], readCall) {
			fb = true
		}
	}
	o.check(fb, c.FuncKey(root)+"#single-char-fallback", c.Pos(root.Pos()), "without a matching child the token is the single character read", "the single-character fallback does not return the character that was read")
	// child lookup uses the character read; DeepestRead descends through FindChildWithChar(the character read)
	_ = types.Typ
	_ = sort.Strings
	return o.list
}

// storedInto: v is string(slice of an array into which x was stored) — the `string([]rune{x})` idiom.
func storedInto(v ssa.Value, x ssa.Value) bool {
	if x == nil {
		return false
	}
	cv, ok := v.(*ssa.Convert)
	if !ok {
		return false
	}
	sl, ok := cv.X.(*ssa.Slice)
	if !ok {
		return false
	}
	al, ok := sl.X.(*ssa.Alloc)
	if !ok {
		return false
	}
	for _, r := range *al.Referrers() {
		if ia, ok := r.(*ssa.IndexAddr); ok {
			for _, r2 := range *ia.Referrers() {
				if st, ok := r2.(*ssa.Store); ok && st.Val == x {
					return true
				}
			}
		}
	}
	return false
}

func ruleMapDispatch(c *Ctx) []*Obligation {
	o := newObl("MAP.dispatch")
	get := c.MustFunc("tokenizers", "AbstractTokenizer", "GetCharacterState")
	key := c.FuncKey(get) + "#pure-lookup"
	bad := ""
	for _, b := range get.Blocks {
		for _, in := range b.Instrs {
			switch in.(type) {
			case *ssa.Store, *ssa.MapUpdate:
				bad = "GetCharacterState writes state (a cache of dispatch results is not invalidated by later registrations)"
			}
		}
	}
	okRet := false
	for _, ret := range returnsOf(get) {
		for _, leaf := range phiLeaves(ret.Results[0]) {
			if ex, ok := leaf.(*ssa.Extract); ok {
				if ta, ok := ex.Tuple.(*ssa.TypeAssert); ok && ta.CommaOk {
					if call, ok := ta.X.(*ssa.Call); ok {
						if cc, isL := c.callTo(call, pkgUtil, "CharReferenceMap", "Lookup"); isL {
							if isFieldLoad(callRecv(cc), "mp") && callArgs(cc)[0] == ssa.Value(get.Params[1]) {
								okRet = true
								continue
							}
						}
					}
				}
			}
			if !isNilConst(leaf) {
				bad = "GetCharacterState returns something other than the map's answer for the character"
			}
		}
	}
	if !okRet && bad == "" {
		bad = "GetCharacterState does not return Lookup(symbol) of the instance's map"
	}
	o.check(bad == "", key, c.Pos(get.Pos()), "returns mp.Lookup(symbol).(ITokenizerState) and stores nothing", bad)
	for _, name := range []string{"SetCharacterState", "ClearCharacterStates"} {
		fn := c.MustFunc("tokenizers", "AbstractTokenizer", name)
		k := c.FuncKey(fn) + "#forwards-to-map"
		calls := 0
		other := ""
		for _, b := range fn.Blocks {
			for _, in := range b.Instrs {
				switch t := in.(type) {
				case *ssa.Store, *ssa.MapUpdate:
					other = "writes tokenizer state besides the map"
				case ssa.CallInstruction:
					if g := calleeObj(t.Common()); g != nil && recvNamed(g) == "CharReferenceMap" && (g.Name() == "AddInterval" || g.Name() == "Clear") {
						calls++
					}
				}
			}
		}
		o.check(calls == 1 && other == "", k, c.Pos(fn.Pos()), "one call into the character map, no other state", name+" "+other+" (expected exactly one forwarding call into the character map)")
	}
	return o.list
}

type levelResult struct {
	returns   int
	bad       string
	undecided string
	descends  bool
	ascends   bool
}

// levelBalance explores fn path-sensitively. Node values carry a level relative to the receiver:
// receiver 0, FindChildWithChar(x) = level(x)+1, x.parent = level(x)-1, a recursive call of fn on x
// returns (by induction) a node m levels below x having consumed m characters - modelled with m = 0,
// which leaves the checked difference unchanged. Scanner Read = +1, Unread = -1.
func (c *Ctx) levelBalance(fn *ssa.Function) levelResult {
	res := levelResult{}
	type state struct {
		consumed int
		level    map[ssa.Value]int
		lastRead ssa.Value
	}
	const nilLevel = -1 << 20 // marks a node value known to be nil on this path
	isNode := func(v ssa.Value) bool { return strings.HasSuffix(v.Type().String(), "generic.SymbolNode") }
	var levelOf func(st *state, v ssa.Value) (int, bool)
	levelOf = func(st *state, v ssa.Value) (int, bool) {
		if l, ok := st.level[v]; ok {
			return l, true
		}
		if v == ssa.Value(fn.Params[0]) {
			return 0, true
		}
		switch x := v.(type) {
		case *ssa.Call:
			cc := x.Common()
			if g := cc.StaticCallee(); g != nil && len(cc.Args) > 0 {
				switch {
				case g.Name() == "FindChildWithChar":
					if l, ok := levelOf(st, cc.Args[0]); ok {
						res.descends = true
						if len(cc.Args) > 1 && st.lastRead != nil && stripConv(cc.Args[1]) != st.lastRead && res.bad == "" {
							res.bad = "the walk descends to the child for a character other than the one it has just read"
						}
						return l + 1, true
					}
				case g == fn:
					return levelOf(st, cc.Args[0])
				}
			}
		case *ssa.UnOp:
			if x.Op == token.MUL {
				if fa, ok := x.X.(*ssa.FieldAddr); ok && fieldName(fa.X.Type(), fa.Field) == "parent" {
					if l, ok := levelOf(st, fa.X); ok {
						res.ascends = true
						return l - 1, true
					}
				}
			}
		}
		return 0, false
	}
	isHeader := func(b *ssa.BasicBlock) bool {
		for _, p := range b.Preds {
			if b.Dominates(p) {
				return true
			}
		}
		return false
	}
	type visitKey struct {
		b   *ssa.BasicBlock
		sig string
	}
	visited := map[visitKey]bool{}
	steps := 0
	var walk func(b, pred *ssa.BasicBlock, st state)
	walk = func(b, pred *ssa.BasicBlock, st state) {
		steps++
		if steps > 5000 || res.undecided != "" {
			if steps > 5000 {
				res.undecided = "path exploration did not converge"
			}
			return
		}
		// phis
		nl := map[ssa.Value]int{}
		for k, v := range st.level {
			nl[k] = v
		}
		for _, in := range b.Instrs {
			phi, ok := in.(*ssa.Phi)
			if !ok {
				break
			}
			if !isNode(phi) {
				continue
			}
			for i, p := range b.Preds {
				if p == pred {
					if l, ok := levelOf(&st, phi.Edges[i]); ok {
						nl[phi] = l
					} else if isNilConst(phi.Edges[i]) {
						nl[phi] = nilLevel
					} else {
						res.undecided = "a node value of unknown level flows into " + phi.Name()
						return
					}
				}
			}
		}
		st.level = nl
		if isHeader(b) {
			// re-base on the first node phi of the header
			for _, in := range b.Instrs {
				phi, ok := in.(*ssa.Phi)
				if !ok {
					break
				}
				if l, has := st.level[phi]; has && isNode(phi) && l != nilLevel {
					st.consumed -= l
					for k := range st.level {
						if st.level[k] != nilLevel {
							st.level[k] -= l
						}
					}
					break
				}
			}
		}
		sig := fmt.Sprint(st.consumed)
		var ks []string
		for k, v := range st.level {
			if _, isPhi := k.(*ssa.Phi); isPhi {
				ks = append(ks, fmt.Sprintf("%s=%d", k.Name(), v))
			}
		}
		sort.Strings(ks)
		vk := visitKey{b, sig + strings.Join(ks, ",")}
		if visited[vk] {
			return
		}
		visited[vk] = true
		for _, in := range b.Instrs {
			switch t := in.(type) {
			case *ssa.Call:
				if t.Call.IsInvoke() && strings.HasSuffix(t.Call.Value.Type().String(), "io.IScanner") {
					switch t.Call.Method.Name() {
					case "Read":
						st.consumed++
						st.lastRead = t
					case "Unread":
						st.consumed--
					case "UnreadMany":
						res.undecided = "UnreadMany with a computed count inside the walk"
						return
					}
				}
				if isNode(t) {
					delete(st.level, t) // recomputed from its operands on every execution
					if l, ok := levelOf(&st, t); ok {
						st.level[t] = l
					}
				}
			case *ssa.UnOp:
				if isNode(t) {
					delete(st.level, t)
					if l, ok := levelOf(&st, t); ok {
						st.level[t] = l
					}
				}
			case *ssa.Return:
				res.returns++
				l, ok := levelOf(&st, t.Results[0])
				if ok && l == nilLevel {
					return // returns nil: not a node
				}
				if !ok {
					if !isNilConst(t.Results[0]) {
						res.undecided = "the level of a returned node is unknown"
					}
					return
				}
				if l != st.consumed && res.bad == "" {
					res.bad = fmt.Sprintf("on a path the walk returns a node %d level(s) from where it started having consumed %d character(s) net", l, st.consumed)
				}
				return
			}
		}
		succs := b.Succs
		if ifi, ok := b.Instrs[len(b.Instrs)-1].(*ssa.If); ok {
			// a value known to be nil on this path decides its own nil test
			if bo, ok := ifi.Cond.(*ssa.BinOp); ok && isNilConst(bo.Y) && (bo.Op == token.EQL || bo.Op == token.NEQ) {
				if l, has := st.level[bo.X]; has && l == nilLevel {
					if bo.Op == token.EQL {
						succs = b.Succs[:1]
					} else {
						succs = b.Succs[1:]
					}
				}
			}
		}
		for _, s := range succs {
			ns := state{st.consumed, map[ssa.Value]int{}, st.lastRead}
			for k, v := range st.level {
				ns.level[k] = v
			}
			walk(s, b, ns)
		}
	}
	walk(fn.Blocks[0], nil, state{0, map[ssa.Value]int{}, nil})
	if res.returns == 0 && res.undecided == "" {
		res.undecided = "no return reached"
	}
	return res
}
