package main

import (
	"fmt"
	"go/ast"
	"go/token"
	"go/types"
	"os"
	"path/filepath"
	"sort"
	"strings"

	"golang.org/x/tools/go/callgraph"
	"golang.org/x/tools/go/callgraph/cha"
	"golang.org/x/tools/go/callgraph/vta"
	"golang.org/x/tools/go/packages"
	"golang.org/x/tools/go/ssa"
	"golang.org/x/tools/go/ssa/ssautil"
)

// Ctx is the loaded, type-checked and SSA-built program plus per-run settings.
type Ctx struct {
	RepoDir string
	Module  string
	Tier    string
	Fset    *token.FileSet
	All     []*packages.Package          // every module package (library + test helpers)
	Lib     map[string]*packages.Package // library packages by module-relative path ("variants", "calculator/parsers", ...)
	Prog    *ssa.Program
	SSA     map[string]*ssa.Package // by module-relative path
	cg      *callgraph.Graph
	cgKind  string

	funcCount int
}

const minLibPackages = 16

// Load loads /repo's current working tree. It never writes into the repository: go.mod/go.sum are
// copied to a scratch dir and passed with -modfile, because the repository's go.sum lacks one hash
// and plain go tooling would rewrite it.
func Load(repo, tier string) (*Ctx, error) {
	repo, err := filepath.Abs(repo)
	if err != nil {
		return nil, err
	}
	scratch, err := os.MkdirTemp("", "verifchk-mod-")
	if err != nil {
		return nil, err
	}
	defer os.RemoveAll(scratch)
	for _, f := range []string{"go.mod", "go.sum"} {
		b, err := os.ReadFile(filepath.Join(repo, f))
		if err != nil {
			return nil, fmt.Errorf("read %s: %w", f, err)
		}
		if err := os.WriteFile(filepath.Join(scratch, f), b, 0o644); err != nil {
			return nil, err
		}
	}
	env := []string{}
	for _, e := range os.Environ() {
		k := e
		if i := strings.IndexByte(e, '='); i >= 0 {
			k = e[:i]
		}
		switch k {
		case "GOFLAGS", "GOWORK", "GOPROXY", "GOSUMDB", "GOTOOLCHAIN":
			continue
		}
		env = append(env, e)
	}
	env = append(env, "GOFLAGS=", "GOWORK=off", "GOPROXY=off", "GOSUMDB=off", "GOTOOLCHAIN=local")
	cfg := &packages.Config{
		Mode:       packages.LoadAllSyntax | packages.NeedModule,
		Dir:        repo,
		Env:        env,
		BuildFlags: []string{"-mod=mod", "-modfile=" + filepath.Join(scratch, "go.mod")},
		Tests:      false,
	}
	pkgs, err := packages.Load(cfg, "./...")
	if err != nil {
		return nil, fmt.Errorf("packages.Load: %w", err)
	}
	c := &Ctx{RepoDir: repo, Tier: tier, Lib: map[string]*packages.Package{}, SSA: map[string]*ssa.Package{}}
	moduleFilter = c.InModule
	var errs []string
	for _, p := range pkgs {
		if p.Module == nil || !p.Module.Main {
			continue
		}
		if c.Module == "" {
			c.Module = p.Module.Path
		}
		for _, e := range p.Errors {
			errs = append(errs, e.Error())
		}
		if len(p.IgnoredFiles) > 0 {
			errs = append(errs, fmt.Sprintf("package %s has files ignored by the build configuration: %v", p.PkgPath, p.IgnoredFiles))
		}
		c.All = append(c.All, p)
		if c.Fset == nil {
			c.Fset = p.Fset
		}
	}
	if len(errs) > 0 {
		sort.Strings(errs)
		return nil, fmt.Errorf("type-check/load errors:\n  %s", strings.Join(errs, "\n  "))
	}
	for _, p := range c.All {
		rel := strings.TrimPrefix(strings.TrimPrefix(p.PkgPath, c.Module), "/")
		if rel == "test" || strings.HasPrefix(rel, "test/") {
			continue
		}
		c.Lib[rel] = p
	}
	if len(c.Lib) < minLibPackages {
		return nil, fmt.Errorf("only %d library packages loaded (expected >= %d)", len(c.Lib), minLibPackages)
	}
	prog, _ := ssautil.AllPackages(pkgs, ssa.InstantiateGenerics)
	prog.Build()
	c.Prog = prog
	for rel, p := range c.Lib {
		sp := prog.Package(p.Types)
		if sp == nil {
			return nil, fmt.Errorf("no SSA package for %s", p.PkgPath)
		}
		c.SSA[rel] = sp
	}
	for _, sp := range c.SSA {
		for _, m := range sp.Members {
			if _, ok := m.(*ssa.Function); ok {
				c.funcCount++
			}
		}
	}
	return c, nil
}

// CallGraph returns the call graph for the tier: CHA for quick, VTA seeded by CHA for thorough.
func (c *Ctx) CallGraph() *callgraph.Graph {
	if c.cg != nil {
		return c.cg
	}
	g := cha.CallGraph(c.Prog)
	c.cgKind = "CHA"
	if c.Tier == "thorough" {
		g = vta.CallGraph(ssautil.AllFunctions(c.Prog), g)
		c.cgKind = "VTA(CHA)"
	}
	c.cg = g
	return g
}

// InModule reports whether fn belongs to a library package of the module.
func (c *Ctx) InModule(fn *ssa.Function) bool {
	if fn == nil {
		return false
	}
	p := fn.Pkg
	if p == nil && fn.Parent() != nil {
		return c.InModule(fn.Parent())
	}
	if p == nil {
		if o := fn.Origin(); o != nil && o != fn {
			return c.InModule(o)
		}
		// wrappers/thunks: use the object package
		if fn.Object() != nil && fn.Object().Pkg() != nil {
			return c.isLibPath(fn.Object().Pkg().Path())
		}
		return false
	}
	return c.isLibPath(p.Pkg.Path())
}

func (c *Ctx) isLibPath(path string) bool {
	if path != c.Module && !strings.HasPrefix(path, c.Module+"/") {
		return false
	}
	rel := strings.TrimPrefix(strings.TrimPrefix(path, c.Module), "/")
	return rel != "test" && !strings.HasPrefix(rel, "test/")
}

// Pos renders a position relative to the repository root.
func (c *Ctx) Pos(p token.Pos) string {
	if !p.IsValid() {
		return "-"
	}
	pos := c.Fset.Position(p)
	rel, err := filepath.Rel(c.RepoDir, pos.Filename)
	if err != nil {
		rel = pos.Filename
	}
	return fmt.Sprintf("%s:%d", rel, pos.Line)
}

// ---- symbol lookup -------------------------------------------------------------------------

// Func returns the SSA function for a package-level function or a method.
// recv == "" means package-level. Methods are looked up on *recv and recv.
func (c *Ctx) Func(pkgRel, recv, name string) *ssa.Function {
	sp := c.SSA[pkgRel]
	if sp == nil {
		return nil
	}
	if recv == "" {
		return sp.Func(name)
	}
	t := sp.Type(recv)
	if t == nil {
		return nil
	}
	for _, typ := range []types.Type{types.NewPointer(t.Type()), t.Type()} {
		ms := c.Prog.MethodSets.MethodSet(typ)
		for i := 0; i < ms.Len(); i++ {
			sel := ms.At(i)
			if sel.Obj().Name() == name && len(sel.Index()) == 1 { // declared directly, not promoted
				return c.Prog.MethodValue(sel)
			}
		}
	}
	return nil
}

// MustFunc is Func that records an unresolved anchor.
func (c *Ctx) MustFunc(pkgRel, recv, name string) *ssa.Function {
	f := c.Func(pkgRel, recv, name)
	if f == nil {
		panic(anchorError(fmt.Sprintf("unresolved anchor %s.%s.%s", pkgRel, recv, name)))
	}
	return f
}

type anchorError string

func (e anchorError) Error() string { return string(e) }

// FuncDecl returns the AST declaration and package of a function or method.
func (c *Ctx) FuncDecl(pkgRel, recv, name string) (*ast.FuncDecl, *packages.Package) {
	p := c.Lib[pkgRel]
	if p == nil {
		return nil, nil
	}
	for _, f := range p.Syntax {
		for _, d := range f.Decls {
			fd, ok := d.(*ast.FuncDecl)
			if !ok || fd.Name.Name != name {
				continue
			}
			if recv == "" {
				if fd.Recv == nil {
					return fd, p
				}
				continue
			}
			if fd.Recv == nil || len(fd.Recv.List) != 1 {
				continue
			}
			if recvTypeName(fd.Recv.List[0].Type) == recv {
				return fd, p
			}
		}
	}
	return nil, p
}

func (c *Ctx) MustFuncDecl(pkgRel, recv, name string) (*ast.FuncDecl, *packages.Package) {
	fd, p := c.FuncDecl(pkgRel, recv, name)
	if fd == nil {
		panic(anchorError(fmt.Sprintf("unresolved anchor (decl) %s.%s.%s", pkgRel, recv, name)))
	}
	return fd, p
}

func recvTypeName(e ast.Expr) string {
	switch t := e.(type) {
	case *ast.StarExpr:
		return recvTypeName(t.X)
	case *ast.Ident:
		return t.Name
	case *ast.IndexExpr:
		return recvTypeName(t.X)
	}
	return ""
}

// AllLibFuncs returns every source-level function of the library (methods, functions, closures),
// sorted by name for deterministic output.
func (c *Ctx) AllLibFuncs() []*ssa.Function {
	var out []*ssa.Function
	seen := map[*ssa.Function]bool{}
	var add func(f *ssa.Function)
	add = func(f *ssa.Function) {
		if f == nil || seen[f] || f.Blocks == nil {
			return
		}
		seen[f] = true
		out = append(out, f)
		for _, a := range f.AnonFuncs {
			add(a)
		}
	}
	for _, sp := range c.SSA {
		for _, m := range sp.Members {
			switch m := m.(type) {
			case *ssa.Function:
				add(m)
			case *ssa.Type:
				for _, typ := range []types.Type{m.Type(), types.NewPointer(m.Type())} {
					ms := c.Prog.MethodSets.MethodSet(typ)
					for i := 0; i < ms.Len(); i++ {
						sel := ms.At(i)
						if len(sel.Index()) != 1 {
							continue
						}
						fn := c.Prog.MethodValue(sel)
						if fn != nil && fn.Synthetic == "" {
							add(fn)
						}
					}
				}
			}
		}
	}
	sort.Slice(out, func(i, j int) bool { return out[i].String() < out[j].String() })
	return out
}

// relPkg returns the module-relative path of a types.Package ("" if outside the module).
func (c *Ctx) relPkg(p *types.Package) string {
	if p == nil {
		return ""
	}
	if p.Path() == c.Module {
		return "."
	}
	if strings.HasPrefix(p.Path(), c.Module+"/") {
		return strings.TrimPrefix(p.Path(), c.Module+"/")
	}
	return ""
}

// FuncKey gives a stable, line-free name for an SSA function: "pkgRel.(*Recv).Name" / "pkgRel.Name".
func (c *Ctx) FuncKey(fn *ssa.Function) string {
	if fn == nil {
		return "<nil>"
	}
	if fn.Parent() != nil {
		return c.FuncKey(fn.Parent()) + "$" + strings.TrimPrefix(fn.Name(), fn.Parent().Name()+"$")
	}
	pkg := ""
	if fn.Pkg != nil {
		pkg = c.relPkg(fn.Pkg.Pkg)
		if pkg == "" {
			pkg = fn.Pkg.Pkg.Path()
		}
	} else if fn.Object() != nil && fn.Object().Pkg() != nil {
		pkg = c.relPkg(fn.Object().Pkg())
		if pkg == "" {
			pkg = fn.Object().Pkg().Path()
		}
	}
	if r := fn.Signature.Recv(); r != nil {
		t := r.Type()
		star := ""
		if p, ok := t.(*types.Pointer); ok {
			t = p.Elem()
			star = "*"
		}
		n := t.String()
		if nt, ok := t.(*types.Named); ok {
			n = nt.Obj().Name()
		}
		return fmt.Sprintf("%s.(%s%s).%s", pkg, star, n, fn.Name())
	}
	return pkg + "." + fn.Name()
}
