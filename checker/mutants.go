package main

func cmdMutants(args []string) int { return 0 }

func thoroughExtras(c *Ctx, p *Property, verifDir string) int { return 0 }
