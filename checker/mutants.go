package main

import (
	"encoding/json"
	"fmt"
	"io"
	"os"
	"os/exec"
	"path/filepath"
	"sort"
	"strings"
	"sync"
)

// Thorough tier: sensitivity self-check. Every confirmed seeded change under /verif/seeded that the
// reference run (seeded/MATRIX.json) caught under this property is applied to a scratch copy of the
// CURRENT /repo tree and the quick check of the property is run on the copy (in a sub-process, so
// that memory is returned). The check must report a violation there. A seed that applies and is not
// reported means the rule set has lost its teeth: the check is declared broken (exit 2, no VIOLATION
// line - the current tree itself is fine). Seeds whose patch no longer applies to the current tree
// are skipped and counted. Nothing of the repository is executed: the sub-process is the same static
// checker.

type seedResult struct {
	Seed    string `json:"seed"`
	Applies bool   `json:"applies"`
	Caught  bool   `json:"caught"`
	Note    string `json:"note,omitempty"`
}

func copyTree(src, dst string) error {
	return filepath.Walk(src, func(path string, info os.FileInfo, err error) error {
		if err != nil {
			return err
		}
		rel, _ := filepath.Rel(src, path)
		if rel == ".git" || strings.HasPrefix(rel, ".git"+string(filepath.Separator)) {
			if info.IsDir() {
				return filepath.SkipDir
			}
			return nil
		}
		target := filepath.Join(dst, rel)
		if info.IsDir() {
			return os.MkdirAll(target, 0o755)
		}
		if !info.Mode().IsRegular() {
			return nil
		}
		in, err := os.Open(path)
		if err != nil {
			return err
		}
		defer in.Close()
		out, err := os.Create(target)
		if err != nil {
			return err
		}
		defer out.Close()
		_, err = io.Copy(out, in)
		return err
	})
}

func runSeed(self, repo, verifDir, seedDir, prop string) seedResult {
	sid := filepath.Base(seedDir)
	res := seedResult{Seed: sid}
	tmp, err := os.MkdirTemp("", "verifseed.")
	if err != nil {
		res.Note = err.Error()
		return res
	}
	defer os.RemoveAll(tmp)
	w := filepath.Join(tmp, "r")
	if err := copyTree(repo, w); err != nil {
		res.Note = "copy failed: " + err.Error()
		return res
	}
	patch, _ := filepath.Abs(filepath.Join(seedDir, "patch.diff"))
	ap := exec.Command("git", "apply", "--whitespace=nowarn", patch)
	ap.Dir = w
	if out, err := ap.CombinedOutput(); err != nil {
		res.Note = "patch does not apply to the current tree: " + strings.TrimSpace(firstLine(string(out)))
		return res
	}
	res.Applies = true
	cmd := exec.Command(self, "check", prop, "--tier", "quick", "--repo", w, "--verif", verifDir, "--no-evidence")
	out, err := cmd.CombinedOutput()
	code := 0
	if ee, ok := err.(*exec.ExitError); ok {
		code = ee.ExitCode()
	} else if err != nil {
		res.Note = err.Error()
		return res
	}
	res.Caught = code == 1 && strings.Contains(string(out), "VIOLATION property="+prop)
	if !res.Caught {
		res.Note = fmt.Sprintf("exit %d without a VIOLATION line", code)
	} else {
		for _, l := range strings.Split(string(out), "\n") {
			if strings.HasPrefix(strings.TrimSpace(l), "rule=") {
				res.Note = strings.TrimSpace(l)
				if len(res.Note) > 160 {
					res.Note = res.Note[:160]
				}
				break
			}
		}
	}
	return res
}

func firstLine(s string) string {
	if i := strings.IndexByte(s, '\n'); i >= 0 {
		return s[:i]
	}
	return s
}

func seedsFor(verifDir, prop string) []string {
	var matrix map[string]struct {
		Properties []string `json:"properties"`
	}
	b, err := os.ReadFile(filepath.Join(verifDir, "seeded", "MATRIX.json"))
	if err != nil {
		return nil
	}
	if json.Unmarshal(b, &matrix) != nil {
		return nil
	}
	var out []string
	for sid, m := range matrix {
		for _, p := range m.Properties {
			if p == prop {
				if _, err := os.Stat(filepath.Join(verifDir, "seeded", sid, "patch.diff")); err == nil {
					out = append(out, filepath.Join(verifDir, "seeded", sid))
				}
			}
		}
	}
	sort.Strings(out)
	return out
}

// neutralFor: the confirmed behaviour-preserving refactorings written for this property, with the
// verdict of the reference run ("silent" or "undecided").
func neutralFor(verifDir, prop string) map[string]string {
	var matrix map[string]string
	b, err := os.ReadFile(filepath.Join(verifDir, "neutral", "MATRIX.json"))
	if err != nil || json.Unmarshal(b, &matrix) != nil {
		return nil
	}
	out := map[string]string{}
	for nid, verdict := range matrix {
		if strings.HasPrefix(nid, prop+"-") && (verdict == "silent" || verdict == "undecided") {
			if _, err := os.Stat(filepath.Join(verifDir, "neutral", nid, "patch.diff")); err == nil {
				out[filepath.Join(verifDir, "neutral", nid)] = verdict
			}
		}
	}
	return out
}

func thoroughExtras(c *Ctx, p *Property, verifDir string) (map[string]any, int) {
	sens, code := sensitivityCheck(c, p, verifDir)
	// the other direction: behaviour-preserving refactorings of this property's code must not be accused
	neu := neutralFor(verifDir, p.ID)
	self, err := os.Executable()
	if err != nil {
		return sens, 2
	}
	var dirs []string
	for d := range neu {
		dirs = append(dirs, d)
	}
	sort.Strings(dirs)
	type neuResult struct {
		Refactoring string `json:"refactoring"`
		Applies     bool   `json:"applies"`
		Verdict     string `json:"verdict"`
	}
	results := make([]neuResult, len(dirs))
	sem := make(chan struct{}, 4)
	var wg sync.WaitGroup
	for i, d := range dirs {
		wg.Add(1)
		go func(i int, d string) {
			defer wg.Done()
			sem <- struct{}{}
			defer func() { <-sem }()
			r := runSeed(self, c.RepoDir, verifDir, d, p.ID)
			nr := neuResult{Refactoring: filepath.Base(d), Applies: r.Applies}
			switch {
			case !r.Applies:
				nr.Verdict = "skipped"
			case r.Caught:
				nr.Verdict = "alarm"
			case strings.HasPrefix(r.Note, "exit 0"):
				nr.Verdict = "silent"
			default:
				nr.Verdict = "undecided"
			}
			results[i] = nr
		}(i, d)
	}
	wg.Wait()
	silent, skipped := 0, 0
	for i, r := range results {
		switch {
		case r.Verdict == "skipped":
			skipped++
		case r.Verdict == "alarm":
			code = 2
			fmt.Fprintf(os.Stderr, "NOISY property=%s refactoring=%s: a behaviour-preserving refactoring applied to the current tree is reported as a violation (false alarm of the rule set)\n", p.ID, r.Refactoring)
		case r.Verdict == "undecided" && neu[dirs[i]] != "undecided":
			code = 2
			fmt.Fprintf(os.Stderr, "NOISY property=%s refactoring=%s: a behaviour-preserving refactoring applied to the current tree can no longer be decided\n", p.ID, r.Refactoring)
		default:
			silent++
		}
	}
	fmt.Printf("neutrality property=%s refactorings=%d accepted=%d skipped=%d\n", p.ID, len(dirs), silent, skipped)
	sens["neutral_refactorings"] = map[string]any{
		"what":     "each confirmed behaviour-preserving refactoring written for this property (neutral/<id>/patch.diff) is applied to a scratch copy of the current tree; the quick check must stay silent (or undecided where the reference run was); static only",
		"count":    len(dirs),
		"accepted": silent, "skipped_patch_does_not_apply": skipped,
		"results": results,
	}
	return sens, code
}

func sensitivityCheck(c *Ctx, p *Property, verifDir string) (map[string]any, int) {
	seeds := seedsFor(verifDir, p.ID)
	self, err := os.Executable()
	if err != nil {
		return map[string]any{"error": err.Error()}, 2
	}
	results := make([]seedResult, len(seeds))
	sem := make(chan struct{}, 4)
	var wg sync.WaitGroup
	for i, sd := range seeds {
		wg.Add(1)
		go func(i int, sd string) {
			defer wg.Done()
			sem <- struct{}{}
			defer func() { <-sem }()
			results[i] = runSeed(self, c.RepoDir, verifDir, sd, p.ID)
		}(i, sd)
	}
	wg.Wait()
	applied, caught, skipped := 0, 0, 0
	code := 0
	for _, r := range results {
		switch {
		case !r.Applies:
			skipped++
		case r.Caught:
			applied++
			caught++
		default:
			applied++
			code = 2
			fmt.Fprintf(os.Stderr, "INSENSITIVE property=%s seed=%s applied to the current tree is not reported (%s): the rule set no longer detects a change known to break the property\n", p.ID, r.Seed, r.Note)
		}
	}
	fmt.Printf("sensitivity property=%s seeds=%d applied=%d reported=%d skipped=%d\n", p.ID, len(seeds), applied, caught, skipped)
	return map[string]any{
		"what":    "each confirmed seeded change (seeded/<id>/patch.diff) known to break this property is applied to a scratch copy of the current tree and the quick check must report it; static only",
		"seeds":   len(seeds),
		"applied": applied, "reported": caught, "skipped_patch_does_not_apply": skipped,
		"results": results,
	}, code
}

// cmdMutants runs the sensitivity self-check for every property (development aid).
func cmdMutants(args []string) int {
	verif := defaultVerifDir()
	worst := 0
	for i := range properties {
		p := &properties[i]
		if len(p.Rules) == 0 {
			continue
		}
		_, code := thoroughExtras(&Ctx{RepoDir: "/repo"}, p, verif)
		if code > worst {
			worst = code
		}
	}
	return worst
}
