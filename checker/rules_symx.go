package main

import (
	"fmt"
	"go/types"
	"sort"
	"strings"
	"sync"
)

// ---------------------------------------------------------------------------------------------
// MAP.model (C17) and SYM.model (C16): the character-class map and the symbol table evaluated
// abstractly through their exported API against the list / longest-match models of the statements.
// ---------------------------------------------------------------------------------------------

// ---- MAP.model --------------------------------------------------------------------------------------

type mapOp struct {
	kind       string // "add", "default", "clear"
	start, end int64
	ref        string // "A", "B", "" (empty reference)
}

func (o mapOp) String() string {
	r := o.ref
	if r == "" {
		r = "none"
	}
	switch o.kind {
	case "add":
		return fmt.Sprintf("AddInterval(%#x,%#x,%s)", o.start, o.end, r)
	case "default":
		return fmt.Sprintf("AddDefaultInterval(%s)", r)
	}
	return "Clear()"
}

func mapModelLookup(ops []mapOp, ch int64) string {
	res := ""
	for _, o := range ops {
		switch o.kind {
		case "clear":
			res = ""
		case "default":
			res = o.ref
		case "add":
			if o.start <= ch && ch <= o.end {
				res = o.ref
			}
		}
	}
	return res
}

type simpleVerdict struct {
	bad, undec string
	runs       int
}

var mapxMemo *simpleVerdict
var mapxMu sync.Mutex

func (c *Ctx) mapxRun() *simpleVerdict {
	mapxMu.Lock()
	defer mapxMu.Unlock()
	if mapxMemo != nil {
		return mapxMemo
	}
	ends := []int64{0, 'a', 0xFF, 0x100, 0x101, 0x2000, 0xFFFE}
	var ops []mapOp
	for _, r := range []string{"A", "B", ""} {
		for i, s := range ends {
			for _, e := range ends[i:] {
				ops = append(ops, mapOp{"add", s, e, r})
			}
		}
		ops = append(ops, mapOp{kind: "default", ref: r})
	}
	ops = append(ops, mapOp{kind: "clear"})
	probeSet := map[int64]bool{}
	for _, e := range ends {
		for _, d := range []int64{-1, 0, 1} {
			if p := e + d; p >= 0 && p <= 0xFFFE {
				probeSet[p] = true
			}
		}
	}
	// characters beyond the configurable range whose low 16 (or 8) bits equal an endpoint: no registration
	// contains them (an implementation that narrows the character would alias them onto registered ones)
	for _, e := range ends {
		probeSet[0x10000+e] = true
	}
	probeSet[0xFFFF], probeSet[0x10FFFF], probeSet[0x1FFFE] = true, true, true
	var probes []int64
	for p := range probeSet {
		probes = append(probes, p)
	}
	sort.Slice(probes, func(i, j int) bool { return probes[i] < probes[j] })
	var seqs [][]mapOp
	for _, a := range ops {
		seqs = append(seqs, []mapOp{a})
		for _, b := range ops {
			seqs = append(seqs, []mapOp{a, b})
		}
	}
	// depth 3: a deterministic sample (all of them in the thorough tier)
	step := 37
	if c.Tier == "thorough" {
		step = 1
	}
	k := 0
	for _, a := range ops {
		for _, b := range ops {
			for _, d := range ops {
				k++
				if k%step == 0 {
					seqs = append(seqs, []mapOp{a, b, d})
				}
			}
		}
	}
	ctor := c.MustFunc("tokenizers/utilities", "", "NewCharReferenceMap")
	mt := ctor.Signature.Results().At(0).Type()
	meth := func(n string) interface{} { return c.lookupMethod(mt, n) }
	_ = meth
	nw := 12
	parts := make([]*simpleVerdict, nw)
	var wg sync.WaitGroup
	for w := 0; w < nw; w++ {
		wg.Add(1)
		go func(w int) {
			defer wg.Done()
			v := &simpleVerdict{}
			parts[w] = v
			m := newMach(c)
			refVal := func(r string) mv {
				if r == "" {
					return mNil
				}
				return mIface{t: types.Typ[types.String], v: r}
			}
			for i := w; i < len(seqs); i += nw {
				seq := seqs[i]
				m.steps = 0
				obj, out := m.Call(ctor)
				if out.kind != "ok" {
					v.undec = "NewCharReferenceMap: " + out.why
					return
				}
				var hist []string
				fail := false
				for _, o := range seq {
					hist = append(hist, o.String())
					var out mOutcome
					switch o.kind {
					case "add":
						_, out = m.Call(c.lookupMethod(mt, "AddInterval"), obj, o.start, o.end, refVal(o.ref))
					case "default":
						_, out = m.Call(c.lookupMethod(mt, "AddDefaultInterval"), obj, refVal(o.ref))
					default:
						_, out = m.Call(c.lookupMethod(mt, "Clear"), obj)
					}
					if out.kind == "panic" {
						v.bad = strings.Join(hist, "; ") + " panics: " + out.why
						fail = true
						break
					}
					if out.kind != "ok" {
						v.undec = strings.Join(hist, "; ") + ": " + out.why
						fail = true
						break
					}
				}
				if fail {
					continue
				}
				v.runs++
				noteSample("MAP.model/sequences", strings.Join(hist, "; "))
				hasDefault := false
				for _, o := range seq {
					if o.kind == "default" {
						hasDefault = true
					}
				}
				for _, p := range probes {
					if p > 0xFFFE && hasDefault {
						continue // how far a default registration reaches beyond U+FFFE is not stated
					}
					r, out := m.Call(c.lookupMethod(mt, "Lookup"), obj, p)
					if out.kind == "panic" {
						v.bad = fmt.Sprintf("after %s, Lookup(%#x) panics: %s", strings.Join(hist, "; "), p, out.why)
						break
					}
					if out.kind != "ok" {
						v.undec = fmt.Sprintf("after %s, Lookup(%#x): %s", strings.Join(hist, "; "), p, out.why)
						break
					}
					got := ""
					switch t := r.(type) {
					case mIface:
						got, _ = t.v.(string)
					case mNilT:
					default:
						got = mRender(r)
					}
					if want := mapModelLookup(seq, p); got != want && v.bad == "" {
						show := func(s string) string {
							if s == "" {
								return "nothing"
							}
							return s
						}
						v.bad = fmt.Sprintf("after %s, Lookup(%#x) returns %s; the latest registration covering it gives %s", strings.Join(hist, "; "), p, show(got), show(want))
					}
				}
			}
		}(w)
	}
	wg.Wait()
	// long histories: one map, no Clear, hundreds of registrations that each carry a reference of their own (the
	// statement bounds neither the number of registrations nor the number of distinct references): 300 on Latin
	// ranges, 600 on Latin ranges, ranges above U+00FF and ranges spanning U+0100; every probe is looked up after
	// every 50th registration and at the end and compared with the latest covering registration
	longRanges := [][2]int64{{'a', 'z'}, {0xE0, 0xFF}, {'m', 'm'}, {0x00, 0x7F}, {0xFF, 0xFF}, {0x30, 0xC0},
		{0xFF, 0x100}, {0x41, 0x141}, {0x100, 0x17F}, {0xC0, 0x2000}, {0x101, 0x101}, {0x00, 0xFFFE}, {0x2000, 0xFFFE}}
	longV := &simpleVerdict{}
	parts = append(parts, longV)
	for _, lh := range []struct {
		n, ranges int
	}{{300, 6}, {600, len(longRanges)}} {
		m := newMach(c)
		obj, out := m.Call(ctor)
		if out.kind != "ok" {
			longV.undec = "NewCharReferenceMap: " + out.why
			break
		}
		var seq []mapOp
		describe := func() string {
			var rs []string
			for _, r := range longRanges[:lh.ranges] {
				rs = append(rs, fmt.Sprintf("%#x-%#x", r[0], r[1]))
			}
			return fmt.Sprintf("%d registrations of distinct references R0, R1, ... on one new map (registration k: AddInterval with Rk over range number (k+5*(k/%d)) mod %d of [%s]), the last being %s", len(seq), lh.ranges, lh.ranges, strings.Join(rs, " "), seq[len(seq)-1])
		}
		for k := 0; k < lh.n && longV.bad == "" && longV.undec == ""; k++ {
			// the ranges are visited in an order that changes from round to round
			r := longRanges[(k+k/lh.ranges*5)%lh.ranges]
			o := mapOp{"add", r[0], r[1], fmt.Sprintf("R%d", k)}
			seq = append(seq, o)
			m.steps = 0
			_, out := m.Call(c.lookupMethod(mt, "AddInterval"), obj, o.start, o.end, mIface{t: types.Typ[types.String], v: o.ref})
			if out.kind == "panic" {
				longV.bad = "after " + describe() + ": the registration panics: " + out.why
				break
			}
			if out.kind != "ok" {
				longV.undec = "after " + describe() + ": " + out.why
				break
			}
			if (k+1)%50 != 0 && k+1 != lh.n {
				continue
			}
			longV.runs++
			for _, p := range probes {
				m.steps = 0
				r, out := m.Call(c.lookupMethod(mt, "Lookup"), obj, p)
				if out.kind == "panic" {
					longV.bad = fmt.Sprintf("after %s, Lookup(%#x) panics: %s", describe(), p, out.why)
					break
				}
				if out.kind != "ok" {
					longV.undec = fmt.Sprintf("after %s, Lookup(%#x): %s", describe(), p, out.why)
					break
				}
				got := ""
				switch t := r.(type) {
				case mIface:
					got, _ = t.v.(string)
				case mNilT:
				default:
					got = mRender(r)
				}
				if want := mapModelLookup(seq, p); got != want {
					show := func(s string) string {
						if s == "" {
							return "nothing"
						}
						return s
					}
					longV.bad = fmt.Sprintf("after %s, Lookup(%#x) returns %s; the latest registration covering it gives %s", describe(), p, show(got), show(want))
					break
				}
			}
		}
	}
	total := &simpleVerdict{}
	for _, p := range parts {
		total.runs += p.runs
		if p.bad != "" && (total.bad == "" || len(p.bad) < len(total.bad)) {
			total.bad = p.bad
		}
		if p.undec != "" && total.undec == "" {
			total.undec = p.undec
		}
	}
	mapxMemo = total
	return total
}

// ---- SYM.model --------------------------------------------------------------------------------------

type symReg struct {
	text string
	typ  int64
}

func symModel(regs []symReg, input string) (val string, typ int64, typed bool) {
	best := ""
	var bt int64
	for _, r := range regs {
		if strings.HasPrefix(input, r.text) && len(r.text) >= len(best) && r.text != "" {
			if len(r.text) > len(best) {
				best, bt = r.text, r.typ
			}
		}
	}
	if best != "" {
		// the type of a symbol registered twice is that of ... either registration (not specified)
		return best, bt, true
	}
	rs := []rune(input)
	return string(rs[:1]), -1, false // an unregistered single character: a plain Symbol token
}

var symxMemo *simpleVerdict
var symxMu sync.Mutex

func (c *Ctx) symxRun() *simpleVerdict {
	symxMu.Lock()
	defer symxMu.Unlock()
	if symxMemo != nil {
		return symxMemo
	}
	alpha := []string{"<", "=", ">"}
	var words []string
	var rec func(p string, n int)
	rec = func(p string, n int) {
		if p != "" {
			words = append(words, p)
		}
		if n == 0 {
			return
		}
		for _, a := range alpha {
			rec(p+a, n-1)
		}
	}
	rec("", 3)
	var sets [][]symReg
	sets = append(sets, nil)
	for i, a := range words {
		sets = append(sets, []symReg{{a, 101}})
		for j, b := range words {
			if i != j {
				sets = append(sets, []symReg{{a, 101}, {b, 102}})
			}
		}
	}
	// larger sets with shared prefixes, in several registration orders
	big := [][]string{{"<", "<=", "<=>", "<<", "<>"}, {"<=>", "<="}, {"<<=", "<", "="}, {"==", "=", "===", ">>", ">>="}, {"<>", "<=", ">=", "<<", ">>", "!=", "=="}, {"<=>", "<>", "<"}}
	for _, b := range big {
		for rot := 0; rot < len(b); rot++ {
			var s []symReg
			for k := range b {
				t := b[(k+rot)%len(b)]
				s = append(s, symReg{t, int64(110 + (k+rot)%len(b))})
			}
			sets = append(sets, s)
			var rev []symReg
			for k := len(s) - 1; k >= 0; k-- {
				rev = append(rev, s[k])
			}
			sets = append(sets, rev)
		}
	}
	if c.Tier != "thorough" {
		// quick: every third pair set
		var red [][]symReg
		for i, s := range sets {
			if len(s) != 2 || i%3 == 0 {
				red = append(red, s)
			}
		}
		sets = red
	}
	var inputs []string
	var reci func(p string, n int)
	reci = func(p string, n int) {
		if p != "" {
			inputs = append(inputs, p)
		}
		if n == 0 {
			return
		}
		for _, a := range []string{"<", "=", ">", "a"} {
			reci(p+a, n-1)
		}
	}
	reci("", 4)
	symbolType, _ := c.constByName("tokenizers", "Symbol")
	// the whole input list is followed by its short members again: a cached symbol text must survive its siblings
	n0 := len(inputs)
	for _, in := range inputs[:n0] {
		if len(in) <= 2 {
			inputs = append(inputs, in)
		}
	}
	// symbols longer than three characters with unregistered intermediate prefixes; symbols starting with non-ASCII characters
	type special struct {
		regs   []symReg
		inputs []string
		later  []symReg // registered after the inputs were read once; then they are read again
	}
	specials := []special{
		{[]symReg{{"=:~x", 120}}, []string{"=:~x", "=:~", "=:~a", "=:a", "=a", "=", "=:~xx"}, nil},
		{[]symReg{{"<<<<<", 121}, {"<", 122}}, []string{"<<<<<", "<<<<", "<<<a", "<<a", "<a", "<<<<<<"}, nil},
		{[]symReg{{"=<>=", 123}, {"=<", 124}}, []string{"=<>=", "=<>", "=<>a", "=<a", "=a"}, nil},
		{[]symReg{{"≠", 125}, {"é=", 126}, {"«»", 127}, {"=é", 128}}, []string{"≠", "≠a", "é=", "é", "éa", "«»", "«a", "=é", "=a", "«»«»"}, nil},
		// unregistered prefixes that contain characters of two and three bytes (symbols are made of characters up to U+FFFE, the range the maps are configured for)
		{[]symReg{{"<≤≥", 130}}, []string{"<≤≥", "<≤<", "<≤", "<a", "<≤a", "<≤≥≥"}, nil},
		{[]symReg{{"+±+", 131}, {"+", 132}}, []string{"+±+", "+±-", "+±", "+a", "+"}, nil},

		{[]symReg{{"é€ж=", 134}, {"é", 135}}, []string{"é€ж=", "é€жa", "é€a", "éa", "é€ж"}, nil},
		// registrations after the table was already used: a prefix registered late, longer symbols registered late
		{[]symReg{{"=:~", 140}}, []string{"=:a", "=:~", "=:", "=a", "=:~~"}, []symReg{{"=:", 141}}},
		{[]symReg{{"<<<", 142}}, []string{"<<a", "<<<", "<a", "<<<<", "<<"}, []symReg{{"<<", 143}, {"<", 144}}},
		{[]symReg{{"<=", 145}}, []string{"<=>", "<=a", "<=>>", "<", "<="}, []symReg{{"<=>", 146}}},
		{[]symReg{{"<", 147}}, []string{"<", "<>", "<=>", "<<"}, []symReg{{"<>", 148}, {"<=>", 149}}},
	}
	for _, b := range big {
		var first, rest []symReg
		for k, t := range b {
			r := symReg{t, int64(150 + k)}
			if k < 2 {
				first = append(first, r)
			} else {
				rest = append(rest, r)
			}
		}
		specials = append(specials, special{first, []string{"<=>", "<<=", "<>", "<=a", "===", ">>=", "<<", "<a", "=", ">>>", "!="}, rest})
	}
	// "each with its own token type": every token type the library defines (the first of them, whose value is
	// zero, in particular) as the type of a one-character symbol, of a longer one, of a one-character symbol
	// registered after a longer one that starts with it, and of the middle and the longest member of a chain
	ttNames := c.constNames("tokenizers", "")
	var tts []int64
	for t := range ttNames {
		tts = append(tts, t)
	}
	sort.Slice(tts, func(i, j int) bool { return tts[i] < tts[j] })
	for _, t := range tts {
		specials = append(specials,
			special{[]symReg{{"<", t}}, []string{"<", "<a", "<=", "<<", "a"}, nil},
			special{[]symReg{{"<=", t}}, []string{"<=", "<=a", "<=>", "<", "<a", "<=<="}, nil},
			special{[]symReg{{"<=", 101}, {"<", t}}, []string{"<", "<a", "<=", "<<", "<=a"}, nil},
			special{[]symReg{{"<", 101}, {"<=", t}, {"<=>", 102}}, []string{"<=", "<=a", "<==", "<=>", "<", "<a"}, nil},
			special{[]symReg{{"<=>", t}, {"<=", 101}}, []string{"<=>", "<=>a", "<=", "<=a", "<"}, nil},
			special{[]symReg{{"≤≥", t}, {"=", t}}, []string{"≤≥", "≤≥a", "≤", "≤a", "=", "=≤≥"}, []symReg{{"≤≥≤", t}}},
		)
		// a one-character symbol, then a longer symbol with the same first character, registered at once and
		// after the table was used ("registering further symbols never alters the text or type reported for
		// existing ones"). With the zero type the pinned tree turned "=" into a plain Symbol here - Add took a node
		// of type Unknown for one that had not been registered; found by this member, repaired in /repo
		// (known_findings.json)
		specials = append(specials,
			special{[]symReg{{"=", t}, {"=≤", t}}, []string{"=", "=a", "=≤", "=≤a", "=="}, nil},
			special{[]symReg{{"=", t}}, []string{"=", "=a", "=≤"}, []symReg{{"=≤", 103}}},
		)
	}
	// inputs derived from a set: every symbol and every proper prefix of it, alone, followed by a letter, by the
	// symbol's own first and last character and by a blank
	inputsOf := func(regs ...[]symReg) []string {
		var ins []string
		seen := map[string]bool{}
		put := func(s string) {
			if s != "" && !seen[s] {
				seen[s] = true
				ins = append(ins, s)
			}
		}
		for _, rs := range regs {
			for _, r := range rs {
				cs := []rune(r.text)
				for n := len(cs); n >= 1; n-- {
					p := string(cs[:n])
					put(p)
					put(p + "a")
					put(p + string(cs[:1]))
					put(p + string(cs[len(cs)-1:]))
					put(p + " ")
				}
			}
		}
		return ins
	}
	// symbols are made of any characters: the characters at the ends of the ranges a character table may treat apart
	// (U+0001, the ends of ASCII and Latin-1, the first character above U+00FF, the last configurable character) as
	// the only, the first, an inner and the last character of registered symbols; the one-character symbol registered
	// or not, before or after the longer ones, and longer symbols registered after the table was used. (U+0000 is
	// in the family too: the pinned tree used the character 0 for "the root" when it spelled a symbol, so a registered
	// symbol containing U+0000 came back without it - found here, repaired in /repo, known_findings.json)
	for k, b := range []string{"\x00", "\x01", "\x7f", "\u0080", "\u00fe", "\u00ff", "\u0100", "\u0101", "\ufffe"} {
		t := int64(160 + 4*k)
		one := []symReg{{b, t}}
		first := []symReg{{b + ">", t + 1}, {b + ">=", t + 2}}
		inner := []symReg{{"<" + b + "=", t + 3}, {"<", t}}
		last := []symReg{{"<" + b, t + 1}, {"<", t + 2}, {"<" + b + "=", t + 3}}
		twice := []symReg{{b + b, t + 1}, {b + b + b, t + 2}}
		all := append(append(append(append([]symReg{}, one...), first...), last...), twice...)
		var rev []symReg
		for i := len(all) - 1; i >= 0; i-- {
			rev = append(rev, all[i])
		}
		specials = append(specials,
			special{one, inputsOf(one, first), nil},
			special{first, inputsOf(one, first), nil},
			special{inner, inputsOf(inner), nil},
			special{last, inputsOf(last), nil},
			special{twice, inputsOf(twice), one},
			special{all, inputsOf(all), nil},
			special{rev, inputsOf(all), nil},
			special{one, inputsOf(all), append(append([]symReg{}, first...), last[:1]...)},
			special{last[:2], inputsOf(all), append(append([]symReg{}, last[2:]...), one...)},
		)
	}
	// white space is as good a symbol character as any: symbols that start with, contain and end with a blank, a
	// tab or a line break, alone and next to the same symbols without those characters registered with another
	// type, in both orders and after the table was used
	for k, p := range [][2]string{{"-", " "}, {",", " "}, {"->", " "}, {"=", "\t"}, {"<>", "\n"}, {":=", " "}} {
		t := int64(200 + 8*k)
		core, sp := p[0], p[1]
		plain := []symReg{{core, t}}
		lead := []symReg{{sp + core, t + 1}}
		trail := []symReg{{core + sp, t + 2}}
		both := []symReg{{sp + core + sp, t + 3}}
		mid := []symReg{{core + sp + core, t + 4}, {core + sp + ">", t + 5}}
		dbl := []symReg{{core + sp + sp, t + 6}, {sp + sp + core, t + 7}}
		join := func(a ...[]symReg) []symReg {
			var s []symReg
			for _, x := range a {
				s = append(s, x...)
			}
			return s
		}
		all := join(plain, lead, trail, both, mid, dbl)
		ins := inputsOf(all)
		specials = append(specials,
			special{lead, ins, nil}, special{trail, ins, nil}, special{both, ins, nil}, special{mid, ins, nil}, special{dbl, ins, nil},
			special{join(plain, lead), ins, nil}, special{join(lead, plain), ins, nil},
			special{join(plain, trail), ins, nil}, special{join(trail, plain), ins, nil},
			special{join(plain, both), ins, nil}, special{join(both, plain), ins, nil},
			special{plain, ins, both}, special{both, ins, plain},
			special{plain, ins, join(trail, lead)}, special{join(trail, lead), ins, plain},
			special{all, ins, nil}, special{join(dbl, mid, both, trail, lead, plain), ins, nil},
		)
	}
	ctor := c.MustFunc("tokenizers/generic", "", "NewGenericSymbolState")
	st := ctor.Signature.Results().At(0).Type()
	newScanner := c.MustFunc("io", "", "NewStringScanner")
	scT := newScanner.Signature.Results().At(0).Type()
	tokT := types.NewPointer(c.SSA["tokenizers"].Type("Token").Type())
	// staged histories (see the workers): S1 = nothing, every word of one or two characters, pairs of them; w = every
	// word of up to three characters that S1 does not contain
	type stagedHist struct {
		s1 []string
		w  string
	}
	var staged []stagedHist
	{
		var short []string
		for _, wd := range words {
			if len(wd) <= 2 {
				short = append(short, wd)
			}
		}
		s1s := [][]string{nil}
		for i, a := range short {
			s1s = append(s1s, []string{a})
			for j, b := range short {
				// quick: a third of the pairs, in alternating registration order
				if i < j && (c.Tier == "thorough" || (i+j)%3 == 0) {
					if (i+j)%2 == 0 {
						s1s = append(s1s, []string{a, b})
					} else {
						s1s = append(s1s, []string{b, a})
					}
				}
			}
		}
		for _, s1 := range s1s {
			for _, wd := range words {
				if len(s1) > 0 && s1[0] == wd || len(s1) > 1 && s1[1] == wd {
					continue
				}
				staged = append(staged, stagedHist{s1, wd})
			}
		}
	}
	nw := 12
	parts := make([]*simpleVerdict, nw)
	var wg sync.WaitGroup
	for w := 0; w < nw; w++ {
		wg.Add(1)
		go func(w int) {
			defer wg.Done()
			v := &simpleVerdict{}
			parts[w] = v
			m := newMach(c)
			// readOne: one NextToken on a fresh scanner over the input, compared with the longest-match model of the set
			readOne := func(state mv, set []symReg, regs []string, in string, sample bool) {
				m.steps = 0
				v.runs++
				if sample {
					noteSample("SYM.model/sets", fmt.Sprintf("%s on input %q", strings.Join(regs, "; "), in))
				}
				sc, out := m.Call(newScanner, in)
				if out.kind != "ok" {
					v.undec = "NewStringScanner: " + out.why
					return
				}
				tok, out := m.Call(c.lookupMethod(st, "NextToken"), state, mIface{t: scT, v: sc}, mNil)
				where := fmt.Sprintf("after %s, NextToken on %q", strings.Join(regs, "; "), in)
				if len(regs) == 0 {
					where = fmt.Sprintf("with no symbol registered, NextToken on %q", in)
				}
				if out.kind == "panic" {
					v.bad = where + " panics: " + out.why
					return
				}
				if out.kind != "ok" {
					v.undec = where + ": " + out.why
					return
				}
				val, o1 := m.Call(c.lookupMethod(tokT, "Value"), tok)
				typ, o2 := m.Call(c.lookupMethod(tokT, "Type"), tok)
				if o1.kind != "ok" || o2.kind != "ok" {
					v.undec = where + ": token accessors " + o1.why + o2.why
					return
				}
				// what is left in the scanner
				var rest strings.Builder
				for k := 0; k < 10; k++ {
					r, o := m.Call(c.lookupMethod(scT, "Read"), sc)
					if o.kind != "ok" {
						break
					}
					n, _ := r.(int64)
					if n < 0 {
						break
					}
					rest.WriteRune(rune(n))
				}
				wantVal, wantTyp, typed := symModel(set, in)
				gv, _ := val.(string)
				gt, _ := typ.(int64)
				if v.bad != "" {
					return
				}
				switch {
				case gv != wantVal:
					v.bad = fmt.Sprintf("%s returns %q; the longest registered symbol that is a prefix of the input (or else its first character) is %q", where, gv, wantVal)
				case gv+rest.String() != in:
					v.bad = fmt.Sprintf("%s returns %q and leaves %q in the scanner: it does not consume exactly the symbol", where, gv, rest.String())
				case typed && gt != wantTyp:
					v.bad = fmt.Sprintf("%s returns %q with token type %d; the symbol was registered with type %d", where, gv, gt, wantTyp)
				case !typed && gt != symbolType:
					v.bad = fmt.Sprintf("%s returns the unregistered character %q with token type %d; a single character that is no registered symbol is a plain Symbol token (%d) whatever longer symbols start with it", where, gv, gt, symbolType)
				}
			}
			for i := w; i < len(sets)+len(specials); i += nw {
				var set []symReg
				inputs := inputs
				if i < len(sets) {
					set = sets[i]
				} else {
					set = specials[i-len(sets)].regs
					inputs = append(append([]string{}, specials[i-len(sets)].inputs...), specials[i-len(sets)].inputs...)
				}
				m.steps = 0
				state, out := m.Call(ctor)
				if out.kind != "ok" {
					v.undec = "NewGenericSymbolState: " + out.why
					return
				}
				var regs []string
				okSet := true
				for _, r := range set {
					regs = append(regs, fmt.Sprintf("Add(%q,%d)", r.text, r.typ))
					if _, out := m.Call(c.lookupMethod(st, "Add"), state, r.text, r.typ); out.kind != "ok" {
						if out.kind == "panic" {
							v.bad = strings.Join(regs, "; ") + " panics: " + out.why
						} else {
							v.undec = strings.Join(regs, "; ") + ": " + out.why
						}
						okSet = false
						break
					}
				}
				if !okSet {
					continue
				}
				var later []symReg
				if i >= len(sets) {
					later = specials[i-len(sets)].later
				}
				for stage := 0; stage < 2; stage++ {
					if stage == 1 {
						if len(later) == 0 {
							break
						}
						for _, r := range later {
							regs = append(regs, fmt.Sprintf("(after the first reads) Add(%q,%d)", r.text, r.typ))
							if _, out := m.Call(c.lookupMethod(st, "Add"), state, r.text, r.typ); out.kind != "ok" {
								if out.kind == "panic" && v.bad == "" {
									v.bad = strings.Join(regs, "; ") + " panics: " + out.why
								}
								okSet = false
							}
						}
						if !okSet {
							break
						}
						set = append(append([]symReg{}, set...), later...)
					}
					for _, in := range inputs {
						readOne(state, set, regs, in, i%50 == 0)
					}
				}
			}
			// staged histories: with S1 registered the inputs that start with a word w are read (the table looks up
			// exactly the characters of w, at the root and below, and misses where S1 does not continue), then w is
			// registered and the same inputs are read again at once, w itself first; then the same with w extended
			// by one more character. Every read must agree with the longest-match model over what is registered then.
			for hi := w; hi < len(staged); hi += nw {
				h := staged[hi]
				m.steps = 0
				state, out := m.Call(ctor)
				if out.kind != "ok" {
					v.undec = "NewGenericSymbolState: " + out.why
					return
				}
				var set []symReg
				var regs []string
				add := func(text string, typ int64, note string) bool {
					regs = append(regs, fmt.Sprintf("%sAdd(%q,%d)", note, text, typ))
					if _, out := m.Call(c.lookupMethod(st, "Add"), state, text, typ); out.kind != "ok" {
						if out.kind == "panic" && v.bad == "" {
							v.bad = strings.Join(regs, "; ") + " panics: " + out.why
						} else if out.kind != "panic" {
							v.undec = strings.Join(regs, "; ") + ": " + out.why
						}
						return false
					}
					set = append(set, symReg{text, typ})
					return true
				}
				okAll := true
				for k, t := range h.s1 {
					okAll = okAll && add(t, int64(101+k), "")
				}
				word := h.w
				for stage := 0; okAll && stage < 2 && len([]rune(word)) <= 3; stage++ {
					known := false
					for _, r := range set {
						known = known || r.text == word
					}
					if known {
						break // (which type a symbol registered twice reports is not stated)
					}
					ins := []string{word + alpha[(hi+stage)%len(alpha)], word + "a", word}
					for _, in := range ins {
						readOne(state, set, regs, in, hi%97 == 0)
					}
					if !add(word, int64(103+stage), fmt.Sprintf("(after reading %q, %q and %q) ", ins[0], ins[1], ins[2])) {
						break
					}
					for k := len(ins) - 1; k >= 0; k-- {
						readOne(state, set, regs, ins[k], false)
					}
					word += alpha[(hi/3+stage)%len(alpha)]
				}
			}
		}(w)
	}
	wg.Wait()
	total := &simpleVerdict{}
	for _, p := range parts {
		total.runs += p.runs
		if p.bad != "" && (total.bad == "" || len(p.bad) < len(total.bad)) {
			total.bad = p.bad
		}
		if p.undec != "" && total.undec == "" {
			total.undec = p.undec
		}
	}
	symxMemo = total
	return total
}

func emitSimple(c *Ctx, rule, key, pos string, v *simpleVerdict, okText string) []*Obligation {
	o := newObl(rule)
	switch {
	case v.bad != "":
		o.bad(key, pos, v.bad)
	case v.undec != "":
		o.undecided(key, pos, v.undec)
	case v.runs == 0:
		o.undecided(key, pos, "no run")
	default:
		o.ok(key, pos, fmt.Sprintf("%d abstract runs: %s", v.runs, okText))
	}
	return o.list
}

func init() {
	register(&Rule{ID: "MAP.model", Floor: 1,
		Doc: "CharReferenceMap evaluated abstractly (NewCharReferenceMap, AddInterval, AddDefaultInterval, Clear, Lookup) over every sequence of up to two registrations/clears (a sample of the sequences of three in the quick tier, all in the thorough tier) with endpoints from {0,'a',0xFF,0x100,0x101,0x2000,0xFFFE} and references {A,B,none}, probed at every endpoint and its neighbours and at characters beyond U+FFFE whose low 16 bits equal an endpoint; long histories of 300 and 600 registrations of pairwise distinct references on Latin ranges, ranges above U+00FF and ranges spanning U+0100 without a Clear, probed after every 50th registration: Lookup returns the reference of the latest registration covering the character",
		Run: func(c *Ctx) []*Obligation {
			return emitSimple(c, "MAP.model", "utilities.CharReferenceMap#latest-covering-registration", c.Pos(c.MustFunc("tokenizers/utilities", "", "NewCharReferenceMap").Pos()), c.mapxRun(), "lookups agree with the list model")
		}})
	register(&Rule{ID: "SYM.model", Floor: 1,
		Doc: "GenericSymbolState evaluated abstractly (Add, NextToken over a StringScanner) for symbol sets over {<,=,>} of lengths 1..3 (singletons, ordered pairs, larger prefix-sharing sets in rotated and reversed registration orders, distinct token types) and every input up to length 4 over {<,=,>,a}: the token is the longest registered prefix (or the first character), with that symbol's type, and exactly its characters are consumed; staged histories: S1 registered, inputs starting with w read, w registered, the same inputs read again at once; symbols whose only, first, inner and last character is a character at the end of a range (U+0001, U+007F, U+0080, U+00FE, U+00FF, U+0100, U+0101, U+FFFE); symbols that start with, contain and end with blanks, tabs and line breaks next to the same symbols without them",
		Run: func(c *Ctx) []*Obligation {
			return emitSimple(c, "SYM.model", "generic.GenericSymbolState#longest-registered-symbol", c.Pos(c.MustFunc("tokenizers/generic", "", "NewGenericSymbolState").Pos()), c.symxRun(), "tokens agree with the longest-match model")
		}})
}

// ---- MAP.dispatchmodel: the same list model through a tokenizer's SetCharacterState / GetCharacterState ----

var mapdMemo *simpleVerdict
var mapdMu sync.Mutex

func (c *Ctx) mapdRun() *simpleVerdict {
	mapdMu.Lock()
	defer mapdMu.Unlock()
	if mapdMemo != nil {
		return mapdMemo
	}
	v := &simpleVerdict{}
	mapdMemo = v
	h := c.newTkHarness("generic")
	if h.fault != "" {
		v.undec = h.fault
		return v
	}
	states := map[string]mv{"none": mNil}
	for _, n := range []string{"WordState", "SymbolState", "NumberState"} {
		s, out := h.call(n)
		if out.kind != "ok" {
			v.undec = n + ": " + out.why
			return v
		}
		states[n] = s
	}
	nameOf := func(s mv) string {
		for n, st := range states {
			if eq, known := h.m.equal(s, st); known && eq {
				return n
			}
		}
		return "other"
	}
	ends := []int64{'a', 0xFF, 0x100, 0x436, 0xFFFE}
	var ops []mapOp
	for _, r := range []string{"WordState", "SymbolState", "none"} {
		for i, s := range ends {
			for _, e := range ends[i:] {
				ops = append(ops, mapOp{"add", s, e, r})
			}
		}
	}
	ops = append(ops, mapOp{kind: "clear"})
	probes := []int64{'a' - 1, 'a', 'b', 0xFE, 0xFF, 0x100, 0x101, 0x435, 0x436, 0x437, 0xFFFD, 0xFFFE}
	for i, a := range ops {
		for j, b := range ops {
			if (i+j)%2 == 1 {
				continue
			}
			h.m.steps = 0
			if _, out := h.call("ClearCharacterStates"); out.kind != "ok" {
				v.undec = "ClearCharacterStates: " + out.why
				return v
			}
			seq := []mapOp{a, b}
			var hist []string
			okRun := true
			for _, o := range seq {
				var out mOutcome
				if o.kind == "clear" {
					hist = append(hist, "ClearCharacterStates()")
					_, out = h.call("ClearCharacterStates")
				} else {
					hist = append(hist, fmt.Sprintf("SetCharacterState(%#x,%#x,%s)", o.start, o.end, o.ref))
					_, out = h.call("SetCharacterState", o.start, o.end, states[o.ref])
				}
				if out.kind == "panic" {
					v.bad = strings.Join(hist, "; ") + " panics: " + out.why
					okRun = false
					break
				}
				if out.kind != "ok" {
					v.undec = strings.Join(hist, "; ") + ": " + out.why
					okRun = false
					break
				}
			}
			if !okRun {
				continue
			}
			v.runs++
			for _, p := range probes {
				r, out := h.call("GetCharacterState", p)
				if out.kind != "ok" {
					if out.kind == "panic" {
						v.bad = fmt.Sprintf("after %s, GetCharacterState(%#x) panics: %s", strings.Join(hist, "; "), p, out.why)
					} else {
						v.undec = fmt.Sprintf("GetCharacterState: %s", out.why)
					}
					continue
				}
				var model []mapOp
				for _, o := range seq {
					oo := o
					if oo.ref == "none" {
						oo.ref = ""
					}
					model = append(model, oo)
				}
				want := mapModelLookup(model, p)
				if want == "" {
					want = "none"
				}
				if got := nameOf(r); got != want && v.bad == "" {
					v.bad = fmt.Sprintf("generic tokenizer after %s: the character %#x is handed to %s; the latest covering registration says %s", strings.Join(hist, "; "), p, got, want)
				}
			}
		}
	}
	// a disabled range is really disabled, a non-Latin range reaches its state: seen in the token stream
	h2 := c.newTkHarness("generic")
	h2.setOptions(0)
	ws, _ := h2.call("WordState")
	if _, out := h2.call("SetCharacterState", int64(0x400), int64(0x4FF), mNil); out.kind == "ok" {
		r := h2.tokenize("жa")
		if r.kind == "ok" && !(len(r.toks) >= 1 && r.toks[0].typ == "Unknown" && r.toks[0].val == "ж") && v.bad == "" {
			v.bad = fmt.Sprintf("generic tokenizer with the range 0x400-0x4FF disabled tokenizes \"жa\" as [%s]: the disabled range still reaches a state", renderToks(r.toks))
		}
		v.runs++
	}
	if _, out := h2.call("SetCharacterState", int64(0x400), int64(0x4FF), ws); out.kind == "ok" {
		r := h2.tokenize("жa")
		if r.kind == "ok" && !(len(r.toks) >= 1 && r.toks[0].typ == "Word" && r.toks[0].val == "жa") && v.bad == "" {
			v.bad = fmt.Sprintf("generic tokenizer with the range 0x400-0x4FF given to the word state tokenizes \"жa\" as [%s]", renderToks(r.toks))
		}
		v.runs++
	}
	// "a tokenizer hands every character of a configured range, Latin or not, to the configured state": with nothing
	// but one range configured - handed to the symbol state (every character is a one-character Symbol token) and to
	// the word state with exactly the range as its word characters (every run is one Word token) - the ends of the
	// range, their inner neighbours and a middle character stand at the first, an inner and the last position of the
	// input and alone, the characters next to the range too (they have no state: Unknown tokens of one character);
	// through every way of giving the tokenizer its input
	type dispRange struct{ lo, hi rune }
	dispRanges := []dispRange{{'a', 'z'}, {0xE0, 0xFF}, {0xFF, 0x100}, {0x80, 0x180}, {0x100, 0x17F}, {0x2000, 0x206F},
		{0xFE70, 0xFEFF}, {0xFEFF, 0xFEFF}, {0xFE00, 0xFFFE}, {0xFFF0, 0xFFFE}}
	const outside = '0' // in none of the ranges
	for _, rg := range dispRanges {
		for _, stName := range []string{"SymbolState", "WordState"} {
			if v.bad != "" || v.undec != "" {
				break
			}
			hd := c.newTkHarness("generic")
			hd.setOptions(0)
			if _, out := hd.call("ClearCharacterStates"); out.kind != "ok" {
				v.undec = "ClearCharacterStates: " + out.why
				break
			}
			if why := hd.setCharState(rg.lo, rg.hi, stName); why != "" {
				v.undec = why
				break
			}
			if stName == "WordState" {
				if why := hd.stateCall("WordState", "SetWordChars", int64(0), int64(0xFFFE), false); why != "" {
					v.undec = why
					break
				}
				if why := hd.stateCall("WordState", "SetWordChars", int64(rg.lo), int64(rg.hi), true); why != "" {
					v.undec = why
					break
				}
			}
			config := fmt.Sprintf("generic tokenizer without options, ClearCharacterStates(), SetCharacterState(%#x,%#x,%s())", rg.lo, rg.hi, stName)
			if stName == "WordState" {
				config += fmt.Sprintf(" whose word characters are exactly %#x-%#x", rg.lo, rg.hi)
			}
			in := func(ch rune) bool { return rg.lo <= ch && ch <= rg.hi }
			var chars []rune
			seenCh := map[rune]bool{}
			for _, ch := range []rune{rg.lo, rg.hi, rg.lo + 1, rg.hi - 1, (rg.lo + rg.hi) / 2, rg.lo - 1, rg.hi + 1} {
				if ch >= 1 && ch <= 0xFFFE && !seenCh[ch] && (in(ch) || ch == rg.lo-1 || ch == rg.hi+1) {
					seenCh[ch] = true
					chars = append(chars, ch)
				}
			}
			var inputs []string
			for _, ch := range chars {
				x, o := string(ch), string(rune(outside))
				inputs = append(inputs, x, x+o, o+x, o+x+o, x+o+x, x+x, x+string(rg.hi)+o, o+string(rg.lo)+x)
			}
			for _, input := range inputs {
				// the model: runs of range characters (single ones for the symbol state), one token per other character
				var want []string
				rs := []rune(input)
				for i := 0; i < len(rs); {
					switch {
					case !in(rs[i]):
						want = append(want, fmt.Sprintf("Unknown(%q)", string(rs[i])))
						i++
					case stName == "SymbolState":
						want = append(want, fmt.Sprintf("Symbol(%q)", string(rs[i])))
						i++
					default:
						j := i
						for j < len(rs) && in(rs[j]) {
							j++
						}
						want = append(want, fmt.Sprintf("Word(%q)", string(rs[i:j])))
						i = j
					}
				}
				for _, entry := range tkListEntries {
					_, r := hd.tokenizeVia(entry, input)
					if r.kind == "opaque" {
						if v.undec == "" {
							v.undec = fmt.Sprintf("%s, %s on %q: %s", config, entry, input, r.why)
						}
						continue
					}
					v.runs++
					if v.bad != "" {
						continue
					}
					if r.kind != "ok" {
						v.bad = fmt.Sprintf("%s, %s on %q panics: %s", config, entry, input, r.why)
						continue
					}
					var got []string
					for _, t := range r.toks {
						if t.typ != "Eof" {
							got = append(got, fmt.Sprintf("%s(%q)", t.typ, t.val))
						}
					}
					if strings.Join(got, " ") != strings.Join(want, " ") {
						v.bad = fmt.Sprintf("%s, %s on %q yields [%s]; every character of the configured range goes to the configured state and the others to none: [%s]", config, entry, input, strings.Join(got, " "), strings.Join(want, " "))
					}
				}
			}
		}
	}
	// the character classes of the whitespace and word states: a disabled range is really disabled
	h3 := c.newTkHarness("generic")
	h3.setOptions(0)
	if wsState, out := h3.call("WhitespaceState"); out.kind == "ok" {
		if wi, ok := wsState.(mIface); ok {
			sym, _ := h3.call("SymbolState")
			if _, out := callM(c, h3.m, wi.t, "SetWhitespaceChars", wi.v, int64('\n'), int64('\n'), false); out.kind == "ok" {
				h3.call("SetCharacterState", int64('\n'), int64('\n'), sym)
				r := h3.tokenize("a \n b")
				want := `Word("a")@1:1 Whitespace(" ")@1:2 Symbol("\n")@2:0 Whitespace(" ")@2:1 Word("b")@2:2 Eof("")@2:3`
				if r.kind == "ok" && renderToks(r.toks) != want && v.bad == "" {
					v.bad = fmt.Sprintf("generic tokenizer with LF removed from the whitespace characters and handed to the symbol state tokenizes \"a \\n b\" as [%s]; expected [%s]: the disabled range is still whitespace", renderToks(r.toks), want)
				} else if r.kind != "ok" && v.undec == "" {
					v.undec = "whitespace class scenario: " + r.why
				}
				v.runs++
			}
		}
	}
	h4 := c.newTkHarness("generic")
	h4.setOptions(0)
	if wdState, out := h4.call("WordState"); out.kind == "ok" {
		if wi, ok := wdState.(mIface); ok {
			if _, out := callM(c, h4.m, wi.t, "SetWordChars", wi.v, int64('0'), int64('9'), false); out.kind == "ok" {
				r := h4.tokenize("a1 ж2")
				want := `Word("a")@1:1 Integer("1")@1:2 Whitespace(" ")@1:3 Word("ж")@1:4 Integer("2")@1:5 Eof("")@1:6`
				if r.kind == "ok" && renderToks(r.toks) != want && v.bad == "" {
					v.bad = fmt.Sprintf("generic tokenizer with the digits removed from the word characters tokenizes \"a1 ж2\" as [%s]; expected [%s]: the disabled range is still part of words", renderToks(r.toks), want)
				} else if r.kind != "ok" && v.undec == "" {
					v.undec = "word class scenario: " + r.why
				}
				v.runs++
			}
			if _, out := callM(c, h4.m, wi.t, "SetWordChars", wi.v, int64('0'), int64('9'), true); out.kind == "ok" {
				r := h4.tokenize("a1 ж2")
				want := `Word("a1")@1:1 Whitespace(" ")@1:3 Word("ж2")@1:4 Eof("")@1:6`
				if r.kind == "ok" && renderToks(r.toks) != want && v.bad == "" {
					v.bad = fmt.Sprintf("generic tokenizer with the digits enabled again as word characters tokenizes \"a1 ж2\" as [%s]; expected [%s]", renderToks(r.toks), want)
				}
				v.runs++
			}
		}
	}
	return v
}

func init() {
	register(&Rule{ID: "MAP.dispatchmodel", Floor: 1,
		Doc: "the same list model through a tokenizer: ClearCharacterStates / SetCharacterState with ranges below, above and across U+0100 and states {word, symbol, none}, probed with GetCharacterState; a disabled non-Latin range yields Unknown tokens and a re-enabled one reaches its state; with one range (Latin, spanning U+0100, above it, ending at U+FEFF and U+FFFE) handed to the symbol or the word state the characters at and next to its ends stand at the first, an inner and the last position of inputs given through TokenizeBuffer, TokenizeStream and SetReader",
		Run: func(c *Ctx) []*Obligation {
			return emitSimple(c, "MAP.dispatchmodel", "tokenizers.AbstractTokenizer#character-dispatch", c.Pos(c.MustFunc("tokenizers/generic", "", "NewGenericTokenizer").Pos()), c.mapdRun(), "dispatch agrees with the list model")
		}})
}
