package main

import (
	"fmt"
	"go/token"
	"go/types"
	"regexp"
	"sort"
	"strings"

	"golang.org/x/tools/go/ssa"
)

// ---------------------------------------------------------------------------------------------
// GRAM — structure of the recursive-descent expression parser and of the stack evaluator.
// The model is extracted from SSA; the oracle is the precedence table in the property statement.
// ---------------------------------------------------------------------------------------------

const pkgParsers = "calculator/parsers"
const pkgCalc = "calculator"
const pkgVariants = "variants"

type emission struct {
	call        *ssa.Call
	level       int
	emitted     []int64 // token-type constants that can be emitted here
	viaToken    bool    // emitted type is <tested token>.Type()
	guard       []int64 // single-token operator constants tested on the way in (OR set)
	matcher     []int64 // multi-token matcher tuple (nil if none)
	dblock      *ssa.BasicBlock
	seq         string // relevant calls between match and emission: M = consume, L<k> = level call, E = other emission
	leftOperand bool   // a next-level call dominates the match
	loops       bool   // control returns to the match after the emission
	tokenOK     bool   // emitted Type() receiver is the tested token
}

type parserModel struct {
	levels   []*ssa.Function // chain order L0..Ln
	levelIdx map[*ssa.Function]int
	callees  map[*ssa.Function][]*ssa.Function
	ems      []*emission
	problems []string
	names    map[int64]string // token type value -> name
	byName   map[string]int64
}

var parserModelMemo *parserModel

func (c *Ctx) tokName(m *parserModel, v int64) string {
	if n, ok := m.names[v]; ok {
		return n
	}
	return fmt.Sprintf("#%d", v)
}

func (c *Ctx) tokNames(m *parserModel, vs []int64) string {
	var s []string
	for _, v := range vs {
		s = append(s, c.tokName(m, v))
	}
	sort.Strings(s)
	return strings.Join(s, ",")
}

func (c *Ctx) tupleNames(m *parserModel, vs []int64) string {
	var s []string
	for _, v := range vs {
		s = append(s, c.tokName(m, v))
	}
	return strings.Join(s, " ")
}

// parserMethods returns the declared methods of ExpressionParser.
func (c *Ctx) methodsOfType(pkgRel, typeName string) []*ssa.Function {
	sp := c.SSA[pkgRel]
	if sp == nil {
		return nil
	}
	t := sp.Type(typeName)
	if t == nil {
		return nil
	}
	var out []*ssa.Function
	ms := c.Prog.MethodSets.MethodSet(types.NewPointer(t.Type()))
	for i := 0; i < ms.Len(); i++ {
		sel := ms.At(i)
		if len(sel.Index()) != 1 {
			continue
		}
		if fn := c.Prog.MethodValue(sel); fn != nil && fn.Blocks != nil {
			out = append(out, fn)
		}
	}
	sort.Slice(out, func(i, j int) bool { return out[i].Name() < out[j].Name() })
	return out
}

func staticCallees(fn *ssa.Function) []*ssa.Function {
	var out []*ssa.Function
	seen := map[*ssa.Function]bool{}
	for _, ci := range allCalls(fn) {
		if g := ci.Common().StaticCallee(); g != nil && !seen[g] {
			seen[g] = true
			out = append(out, g)
		}
	}
	return out
}

func (c *Ctx) buildParserModel() *parserModel {
	if parserModelMemo != nil {
		return parserModelMemo
	}
	m := &parserModel{levelIdx: map[*ssa.Function]int{}, callees: map[*ssa.Function][]*ssa.Function{}}
	m.names = c.constNames(pkgParsers, "")
	m.byName = map[string]int64{}
	for v, n := range m.names {
		m.byName[n] = v
	}
	methods := c.methodsOfType(pkgParsers, "ExpressionParser")
	if len(methods) == 0 {
		panic(anchorError("ExpressionParser has no methods"))
	}
	add := c.MustFunc(pkgParsers, "ExpressionParser", "addTokenToResult")
	isMethod := map[*ssa.Function]bool{}
	for _, f := range methods {
		isMethod[f] = true
	}
	// level functions = members of the call cycle among func() error methods that can reach addTokenToResult
	adj := map[*ssa.Function][]*ssa.Function{}
	for _, f := range methods {
		for _, g := range staticCallees(f) {
			if isMethod[g] {
				adj[f] = append(adj[f], g)
			}
		}
	}
	reach := func(from *ssa.Function) map[*ssa.Function]bool {
		seen := map[*ssa.Function]bool{}
		var walk func(f *ssa.Function)
		walk = func(f *ssa.Function) {
			for _, g := range adj[f] {
				if !seen[g] {
					seen[g] = true
					walk(g)
				}
			}
		}
		walk(from)
		return seen
	}
	isLevel := map[*ssa.Function]bool{}
	for _, f := range methods {
		sig := f.Signature
		if sig.Params().Len() != 0 || sig.Results().Len() != 1 || sig.Results().At(0).Type().String() != "error" {
			continue
		}
		r := reach(f)
		if r[f] && r[add] { // on a cycle and emits
			isLevel[f] = true
		}
	}
	// entry: the level function called from a non-level method
	var entry *ssa.Function
	for _, f := range methods {
		if isLevel[f] {
			continue
		}
		for _, g := range adj[f] {
			if isLevel[g] {
				if entry != nil && entry != g {
					m.problems = append(m.problems, fmt.Sprintf("two entry levels: %s and %s", entry.Name(), g.Name()))
				}
				entry = g
			}
		}
	}
	if entry == nil {
		panic(anchorError("no entry level function found for ExpressionParser"))
	}
	for f := range isLevel {
		var ls []*ssa.Function
		for _, g := range adj[f] {
			if isLevel[g] {
				ls = append(ls, g)
			}
		}
		sort.Slice(ls, func(i, j int) bool { return ls[i].Name() < ls[j].Name() })
		m.callees[f] = ls
	}
	// chain: follow the callee that is not an already-visited level; for a well-formed chain each level
	// has exactly one level callee.
	cur := entry
	for cur != nil && m.levelIdx[cur] == 0 && !(len(m.levels) > 0 && cur == entry) {
		m.levelIdx[cur] = len(m.levels)
		m.levels = append(m.levels, cur)
		var next *ssa.Function
		// prefer the level call that dominates all others (the left operand); otherwise the first in block order
		for _, ci := range allCalls(cur) {
			if g := ci.Common().StaticCallee(); g != nil && isLevel[g] {
				next = g
				break
			}
		}
		if next == nil || next == entry {
			break
		}
		if _, seen := m.levelIdx[next]; seen && next != entry {
			break
		}
		cur = next
	}
	m.levelIdx[entry] = 0
	for f := range isLevel {
		if _, ok := m.levelIdx[f]; !ok {
			m.problems = append(m.problems, "level function not on the precedence chain: "+f.Name())
		}
	}
	// emissions
	for li, f := range m.levels {
		for _, ci := range allCalls(f) {
			call, ok := ci.(*ssa.Call)
			if !ok || call.Call.StaticCallee() != add {
				continue
			}
			m.ems = append(m.ems, c.analyseEmission(m, li, f, call, isLevel))
		}
	}
	parserModelMemo = m
	return m
}

// typeTestConst matches v == (<x>.Type() == K) on ExpressionToken/any Type() accessor; returns receiver and K.
func (c *Ctx) typeTestConst(v ssa.Value, typePkg, typeRecv string) (recv ssa.Value, k int64, op token.Token, ok bool) {
	b, isBin := v.(*ssa.BinOp)
	if !isBin || (b.Op != token.EQL && b.Op != token.NEQ) {
		return nil, 0, 0, false
	}
	x, y := b.X, b.Y
	if _, isC := x.(*ssa.Const); isC {
		x, y = y, x
	}
	kv, isK := constInt(y)
	if !isK {
		return nil, 0, 0, false
	}
	call, isCall := stripConv(x).(*ssa.Call)
	if !isCall {
		return nil, 0, 0, false
	}
	if _, isT := c.callTo(call, typePkg, typeRecv, "Type"); !isT {
		return nil, 0, 0, false
	}
	return callRecv(call.Common()), kv, b.Op, true
}

// orEntry: if every predecessor of d ends in an If whose true edge enters d and whose condition is
// <tok>.Type() == K, returns the constants and the tested receivers.
func (c *Ctx) orEntry(d *ssa.BasicBlock, typePkg, typeRecv string) (ks []int64, recvs []ssa.Value, ok bool) {
	if len(d.Preds) == 0 {
		return nil, nil, false
	}
	for _, p := range d.Preds {
		ifi, isIf := p.Instrs[len(p.Instrs)-1].(*ssa.If)
		if !isIf || p.Succs[0] != d {
			return nil, nil, false
		}
		r, k, op, isT := c.typeTestConst(ifi.Cond, typePkg, typeRecv)
		if !isT || op != token.EQL {
			return nil, nil, false
		}
		ks = append(ks, k)
		recvs = append(recvs, r)
	}
	return ks, recvs, true
}

// variadicConsts extracts the constant elements of a variadic int slice argument.
func variadicConsts(v ssa.Value) ([]int64, bool) {
	sl, ok := v.(*ssa.Slice)
	if !ok {
		return nil, false
	}
	alloc, ok := sl.X.(*ssa.Alloc)
	if !ok {
		return nil, false
	}
	vals := map[int64]int64{}
	n := int64(0)
	for _, ref := range *alloc.Referrers() {
		ia, ok := ref.(*ssa.IndexAddr)
		if !ok {
			continue
		}
		idx, ok := constInt(ia.Index)
		if !ok {
			return nil, false
		}
		for _, r2 := range *ia.Referrers() {
			st, ok := r2.(*ssa.Store)
			if !ok {
				continue
			}
			k, ok := constInt(st.Val)
			if !ok {
				return nil, false
			}
			vals[idx] = k
			if idx+1 > n {
				n = idx + 1
			}
		}
	}
	out := make([]int64, n)
	for i := int64(0); i < n; i++ {
		k, ok := vals[i]
		if !ok {
			return nil, false
		}
		out[i] = k
	}
	return out, true
}

func (c *Ctx) analyseEmission(m *parserModel, li int, f *ssa.Function, call *ssa.Call, isLevel map[*ssa.Function]bool) *emission {
	e := &emission{call: call, level: li}
	args := callArgs(call.Common())
	var typeRecv ssa.Value
	if k, ok := constInt(args[0]); ok {
		e.emitted = []int64{k}
	} else if tc, ok := stripConv(args[0]).(*ssa.Call); ok {
		if _, isT := c.callTo(tc, pkgParsers, "ExpressionToken", "Type"); isT {
			e.viaToken = true
			typeRecv = callRecv(tc.Common())
		}
	}
	// Walk the dominator chain from the function entry down to the emission and record, in order, how
	// each block is entered (T = matched edge of a single-token type test, X = true edge of the
	// multi-token matcher) and the relevant calls inside (M = consume, L<k> = level call, E = emission).
	var chain []*ssa.BasicBlock
	for d := call.Block(); d != nil; d = d.Idom() {
		chain = append([]*ssa.BasicBlock{d}, chain...)
	}
	type rec struct {
		kind  string
		ks    []int64
		recvs []ssa.Value
		block *ssa.BasicBlock
	}
	var recs []rec
	for _, d := range chain {
		if ks, recvs, ok := c.orEntry(d, pkgParsers, "ExpressionToken"); ok {
			recs = append(recs, rec{kind: "T", ks: ks, recvs: recvs, block: d})
		} else if len(d.Preds) == 1 {
			p := d.Preds[0]
			if ifi, ok := p.Instrs[len(p.Instrs)-1].(*ssa.If); ok && p.Succs[0] == d {
				if mc, ok := ifi.Cond.(*ssa.Call); ok {
					if cc, isM := c.callTo(mc, pkgParsers, "ExpressionParser", "matchTokensWithTypes"); isM {
						if a := callArgs(cc); len(a) == 1 {
							if ks, ok := variadicConsts(a[0]); ok {
								recs = append(recs, rec{kind: "X", ks: ks, block: d})
							}
						}
					}
				}
			}
		}
		for _, in := range d.Instrs {
			if in == ssa.Instruction(call) {
				break
			}
			ci, ok := in.(ssa.CallInstruction)
			if !ok {
				continue
			}
			g := ci.Common().StaticCallee()
			switch {
			case g == nil:
			case g.Name() == "moveToNextToken" && c.FuncKey(g) == pkgParsers+".(*ExpressionParser).moveToNextToken":
				recs = append(recs, rec{kind: "M", block: d})
			case isLevel[g]:
				recs = append(recs, rec{kind: fmt.Sprintf("L%d", m.levelIdx[g]), block: d})
			case g == call.Call.StaticCallee():
				recs = append(recs, rec{kind: "E", block: d})
			}
		}
	}
	// the operator region starts at the first T/X record; level calls before it are the left operand
	first := -1
	for i, r := range recs {
		if r.kind == "T" || r.kind == "X" {
			first = i
			break
		}
	}
	if first >= 0 && li < 6 {
		e.dblock = recs[first].block
		for _, r := range recs[:first] {
			if strings.HasPrefix(r.kind, "L") {
				e.leftOperand = true
			}
		}
		var parts []string
		var opTokens [][]int64
		for i := first; i < len(recs); i++ {
			r := recs[i]
			parts = append(parts, r.kind)
			switch r.kind {
			case "T":
				opTokens = append(opTokens, r.ks)
				if e.viaToken && len(opTokens) == 1 {
					e.tokenOK = true
					for _, rv := range r.recvs {
						if !c.sameToken(rv, typeRecv) {
							e.tokenOK = false
						}
					}
				}
			case "X":
				for _, k := range r.ks {
					opTokens = append(opTokens, []int64{k})
				}
			}
		}
		e.seq = strings.Join(parts, " ")
		if len(opTokens) == 1 && recs[first].kind == "T" {
			e.guard = opTokens[0]
			if e.viaToken {
				e.emitted = append([]int64{}, e.guard...)
			}
		} else {
			// a token sequence: every position must be a single constant
			for _, t := range opTokens {
				if len(t) != 1 {
					e.matcher = nil
					break
				}
				e.matcher = append(e.matcher, t[0])
			}
		}
		r := reachableBlocks(call.Block(), nil)
		for _, p := range e.dblock.Preds {
			if r[p] {
				e.loops = true
			}
		}
	} else if first >= 0 {
		// primary level: remember the nearest single-token guard for diagnostics
		for i := len(recs) - 1; i >= 0; i-- {
			if recs[i].kind == "T" {
				e.guard = recs[i].ks
				if e.viaToken {
					e.tokenOK = true
					for _, rv := range recs[i].recvs {
						if !c.sameToken(rv, typeRecv) {
							e.tokenOK = false
						}
					}
					e.emitted = append([]int64{}, recs[i].ks...)
				}
				break
			}
		}
	}
	// emitted via a token built by NewExpressionToken(K, ...) (unary minus, function reclassification)
	if e.viaToken && typeRecv != nil {
		var ks []int64
		allBuilt := true
		nonNil := 0
		for _, leaf := range phiLeaves(typeRecv) {
			if isNilConst(leaf) {
				continue
			}
			nonNil++
			lc, ok := leaf.(*ssa.Call)
			if !ok {
				allBuilt = false
				continue
			}
			if cc, isN := c.callTo(lc, pkgParsers, "", "NewExpressionToken"); isN {
				if k, ok := constInt(cc.Args[0]); ok {
					ks = append(ks, k)
					continue
				}
			}
			allBuilt = false
		}
		if allBuilt && nonNil > 0 {
			e.emitted = ks
			e.tokenOK = true
			// guard of the construction site(s)
			e.guard = nil
			for _, leaf := range phiLeaves(typeRecv) {
				if lc, ok := leaf.(*ssa.Call); ok {
					for d := lc.Block(); d != nil; d = d.Idom() {
						if gk, _, ok := c.orEntry(d, pkgParsers, "ExpressionToken"); ok {
							e.guard = append(e.guard, gk...)
							break
						}
					}
				}
			}
			e.dblock = nil
		}
	}
	return e
}

// sameToken: the two values denote the same current token (identical SSA value, or congruent calls).
func (c *Ctx) sameToken(a, b ssa.Value) bool {
	if a == nil || b == nil {
		return false
	}
	return a == b || c.sameValue(a, b)
}

type opSpec struct {
	kind  string // "binary", "prefix", "postfix"
	types []string
}

// precedence oracle from the property statement (C01): lowest first.
var gramOracleSingle = []opSpec{
	{"binary", []string{"And", "Or", "Xor"}},
	{"prefix", []string{"Not"}},
	{"binary", []string{"Equal", "NotEqual", "More", "Less", "EqualMore", "EqualLess"}},
	{"binary", []string{"Plus", "Minus", "Like"}},
	{"binary", []string{"Star", "Slash", "Procent"}},
	{"binary", []string{"Power", "In", "ShiftLeft", "ShiftRight"}},
}

type matcherSpec struct {
	level   int
	tuple   string
	emitted string
	kind    string
}

var gramOracleMatchers = []matcherSpec{
	{3, "Not Like", "NotLike", "binary"},
	{3, "Is Null", "IsNull", "postfix"},
	{3, "Is Not Null", "IsNotNull", "postfix"},
	{3, "Not In", "NotIn", "binary"},
}

func init() {
	register(&Rule{ID: "GRAM.chain", Floor: 7,
		Doc: "the level functions of ExpressionParser form one precedence chain L0→L1→…→L6→L0: each level calls exactly one other level (the next), so no operand is parsed at the same or a lower level (right-associativity / inverted precedence)",
		Run: ruleGramChain})
	register(&Rule{ID: "GRAM.table", Floor: 26,
		Doc: "operator token types tested and emitted at each level equal the precedence table of the property statement; multi-token matchers map to their combined operator",
		Run: ruleGramTable})
	register(&Rule{ID: "GRAM.postorder", Floor: 10,
		Doc: "between an operator match and its emission: consume the operator, parse exactly one next-level operand (none for postfix tests), emit after the operand, then return to the loop (left associativity); the left operand is parsed before the match",
		Run: ruleGramPostorder})
}

func ruleGramChain(c *Ctx) []*Obligation {
	m := c.buildParserModel()
	o := newObl("GRAM.chain")
	for _, p := range m.problems {
		o.bad("parsers.ExpressionParser#chain", c.Pos(m.levels[0].Pos()), p)
	}
	n := len(m.levels)
	for i, f := range m.levels {
		want := m.levels[(i+1)%n]
		var names []string
		for _, g := range m.callees[f] {
			names = append(names, fmt.Sprintf("L%d:%s", m.levelIdx[g], g.Name()))
		}
		key := fmt.Sprintf("parsers.(*ExpressionParser).%s#level%d#callees", f.Name(), i)
		if len(m.callees[f]) == 1 && m.callees[f][0] == want {
			o.ok(key, c.Pos(f.Pos()), fmt.Sprintf("only level callee is L%d (%s)", (i+1)%n, want.Name()))
		} else {
			o.bad(key, c.Pos(f.Pos()), fmt.Sprintf("level L%d must call only L%d (%s) but calls {%s}: an operand parsed at the same or another level changes associativity/precedence", i, (i+1)%n, want.Name(), strings.Join(names, ", ")))
		}
	}
	if n != 7 {
		o.bad("parsers.ExpressionParser#chain#length", c.Pos(m.levels[0].Pos()), fmt.Sprintf("precedence chain has %d levels, the statement's table needs 7", n))
	}
	return o.list
}

func ruleGramTable(c *Ctx) []*Obligation {
	m := c.buildParserModel()
	o := newObl("GRAM.table")
	// single-token operators per level
	got := map[int]map[string]*emission{}
	for _, e := range m.ems {
		if e.level >= len(gramOracleSingle) || e.matcher != nil || !e.viaToken {
			continue
		}
		for _, k := range e.guard {
			if got[e.level] == nil {
				got[e.level] = map[string]*emission{}
			}
			got[e.level][c.tokName(m, k)] = e
		}
	}
	for li, spec := range gramOracleSingle {
		if li >= len(m.levels) {
			break
		}
		f := m.levels[li]
		for _, t := range spec.types {
			key := fmt.Sprintf("parsers.(*ExpressionParser).%s#level%d#op#%s", f.Name(), li, t)
			e := got[li][t]
			if e == nil {
				o.bad(key, c.Pos(f.Pos()), fmt.Sprintf("operator %s is not matched-and-emitted at level %d (the statement places it there)", t, li))
				continue
			}
			if !e.tokenOK {
				o.bad(key, c.Pos(e.call.Pos()), "the emitted type is not the type of the token that was tested")
				continue
			}
			o.ok(key, c.Pos(e.call.Pos()), fmt.Sprintf("tested by Type()==%s on the current token and emitted as that token's type", t))
			delete(got[li], t)
		}
		for t, e := range got[li] {
			key := fmt.Sprintf("parsers.(*ExpressionParser).%s#level%d#op#%s", f.Name(), li, t)
			o.bad(key, c.Pos(e.call.Pos()), fmt.Sprintf("operator %s is handled at level %d, which the precedence table does not allow", t, li))
		}
	}
	// matchers
	seen := map[string]bool{}
	for _, e := range m.ems {
		if e.matcher == nil {
			continue
		}
		tuple := c.tupleNames(m, e.matcher)
		key := fmt.Sprintf("parsers.(*ExpressionParser).%s#level%d#matcher#%s", m.levels[e.level].Name(), e.level, strings.ReplaceAll(tuple, " ", "_"))
		var spec *matcherSpec
		for i := range gramOracleMatchers {
			if gramOracleMatchers[i].tuple == tuple {
				spec = &gramOracleMatchers[i]
			}
		}
		if spec == nil {
			o.bad(key, c.Pos(e.call.Pos()), "multi-token operator "+tuple+" is not in the grammar")
			continue
		}
		seen[tuple] = true
		em := c.tokNames(m, e.emitted)
		if e.level != spec.level || em != spec.emitted {
			o.bad(key, c.Pos(e.call.Pos()), fmt.Sprintf("%s must emit %s at level %d, found %s at level %d", tuple, spec.emitted, spec.level, em, e.level))
			continue
		}
		o.ok(key, c.Pos(e.call.Pos()), fmt.Sprintf("matcher (%s) emits %s at level %d", tuple, em, e.level))
	}
	for _, s := range gramOracleMatchers {
		if !seen[s.tuple] {
			o.bad(fmt.Sprintf("parsers.ExpressionParser#matcher#%s", strings.ReplaceAll(s.tuple, " ", "_")), c.Pos(m.levels[0].Pos()), "multi-token operator "+s.tuple+" is no longer matched")
		}
	}
	// primary level: Constant, Variable, Function(+Constant count), Unary under Minus, Element
	if len(m.levels) == 7 {
		f := m.levels[6]
		want := map[string]bool{"Constant": false, "Variable": false, "Function": false, "Unary": false, "Element": false}
		for _, e := range m.ems {
			if e.level != 6 {
				continue
			}
			for _, k := range e.emitted {
				n := c.tokName(m, k)
				key := fmt.Sprintf("parsers.(*ExpressionParser).%s#level6#emit#%s", f.Name(), n)
				if _, ok := want[n]; !ok {
					o.bad(key, c.Pos(e.call.Pos()), "primary level emits "+n+", which is not a primary/unary/index node")
					continue
				}
				if n == "Unary" {
					if c.tokNames(m, e.guard) != "Minus" {
						o.bad(key, c.Pos(e.call.Pos()), "Unary must be emitted exactly for a leading Minus; guard is {"+c.tokNames(m, e.guard)+"}")
						continue
					}
				}
				if !want[n] {
					o.ok(key, c.Pos(e.call.Pos()), "primary-level emission of "+n)
				}
				want[n] = true
			}
			if len(e.emitted) == 0 {
				o.bad(fmt.Sprintf("parsers.(*ExpressionParser).%s#level6#emit#unknown", f.Name()), c.Pos(e.call.Pos()), "cannot determine the emitted token type")
			}
		}
		for n, ok := range want {
			if !ok {
				o.bad(fmt.Sprintf("parsers.(*ExpressionParser).%s#level6#emit#%s", f.Name(), n), c.Pos(f.Pos()), "primary level no longer emits "+n)
			}
		}
	}
	return o.list
}

func ruleGramPostorder(c *Ctx) []*Obligation {
	m := c.buildParserModel()
	o := newObl("GRAM.postorder")
	kindOf := func(e *emission) string {
		if e.matcher != nil {
			t := c.tupleNames(m, e.matcher)
			for _, s := range gramOracleMatchers {
				if s.tuple == t {
					return s.kind
				}
			}
			return ""
		}
		if e.level < len(gramOracleSingle) {
			return gramOracleSingle[e.level].kind
		}
		return ""
	}
	for _, e := range m.ems {
		if e.dblock == nil || e.level >= 6 {
			continue
		}
		kind := kindOf(e)
		if kind == "" {
			continue
		}
		f := m.levels[e.level]
		label := c.tokNames(m, e.emitted)
		key := fmt.Sprintf("parsers.(*ExpressionParser).%s#level%d#order#%s", f.Name(), e.level, label)
		next := fmt.Sprintf("L%d", e.level+1)
		var wantRe string
		switch kind {
		case "postfix":
			wantRe = `^((T M|X) ?)+$`
		case "prefix":
			wantRe = `^T M ` + next + `$`
		default:
			wantRe = `^((T M|X) )+` + next + `$`
		}
		wantSeq := wantRe
		wantLeft := kind != "prefix"
		wantLoop := kind != "prefix"
		var bad []string
		if !regexp.MustCompile(wantRe).MatchString(e.seq) {
			bad = append(bad, fmt.Sprintf("between match and emission the parser does %q, expected to match %s (T=operator test, M=consume it, X=multi-token match, L<k>=parse operand at level k, E=emit)", e.seq, wantSeq))
		}
		if e.leftOperand != wantLeft {
			bad = append(bad, fmt.Sprintf("left operand parsed before the operator test: %v, expected %v", e.leftOperand, wantLeft))
		}
		if wantLoop && !e.loops {
			bad = append(bad, "after the emission control does not return to the operator loop (equal-level operators no longer chain left-associatively)")
		}
		if len(bad) > 0 {
			o.bad(key, c.Pos(e.call.Pos()), strings.Join(bad, "; "))
		} else {
			o.ok(key, c.Pos(e.call.Pos()), fmt.Sprintf("%s: left=%v seq=%q loop=%v", kind, e.leftOperand, e.seq, e.loops))
		}
	}
	return o.list
}
