package main

import (
	"fmt"
	"go/token"
	"go/types"
	"sort"
	"strings"

	"golang.org/x/tools/go/ssa"
)

// ---------------------------------------------------------------------------------------------
// STATE — reset completeness of reusable instances (C05)
// ---------------------------------------------------------------------------------------------

type reuseOp struct {
	name    string
	pkg     string
	typ     string
	entries []string // operations that start a new run
	reset   string   // reset routine each entry must call first
	region  []string // methods whose reachable code belongs to one run (defaults to entries)
}

var reuseOps = []reuseOp{
	{name: "tokenize", pkg: "tokenizers", typ: "AbstractTokenizer", entries: []string{"TokenizeStream", "TokenizeStreamToStrings"}, reset: "SetReader", region: []string{"TokenizeStream", "TokenizeStreamToStrings", "NextToken", "HasNextToken"}},
	{name: "parse-expression", pkg: pkgParsers, typ: "ExpressionParser", entries: []string{"ParseString", "ParseTokens"}, reset: "Clear"},
	{name: "parse-template", pkg: "mustache/parsers", typ: "MustacheParser", entries: []string{"ParseString", "ParseTokens"}, reset: "Clear"},
}

// unconditionalStores: receiver fields a function stores on every path (store block dominates all returns),
// with the constant stored if it is one.
func (c *Ctx) unconditionalStores(fn *ssa.Function) map[string]*ssa.Store {
	out := map[string]*ssa.Store{}
	rets := returnsOf(fn)
	for _, b := range fn.Blocks {
		for _, in := range b.Instrs {
			st, ok := in.(*ssa.Store)
			if !ok {
				continue
			}
			fa, ok := st.Addr.(*ssa.FieldAddr)
			if !ok || len(fn.Params) == 0 || fa.X != ssa.Value(fn.Params[0]) {
				continue
			}
			all := true
			for _, r := range rets {
				if !b.Dominates(r.Block()) {
					all = false
				}
			}
			if all {
				out[fieldName(fa.X.Type(), fa.Field)] = st
			}
		}
	}
	return out
}

func init() {
	for _, sub := range []struct{ id, op string }{{"STATE.tokenize", "tokenize"}, {"STATE.parse", "parse-expression"}, {"STATE.template", "parse-template"}} {
		sub := sub
		register(&Rule{ID: sub.id, Floor: 5,
			Doc: "STATE.reset restricted to the operation '" + sub.op + "': the entry points reset first and every instance field written during the operation is re-initialised for each run",
			Run: func(c *Ctx) []*Obligation { return stateResetFor(c, sub.id, sub.op) }})
	}
	register(&Rule{ID: "STATE.reset", Floor: 12,
		Doc: "for each reusable operation (tokenize a stream, parse an expression, parse a template): the first thing an entry point does is call the reset routine, and every instance field written while the operation runs is unconditionally assigned by that routine — or is reachable only through a field it replaces, always receives the same constant, is re-initialised under a guard made of exactly the reset values, or is an owned lazily-built memo of construction-time data",
		Run: ruleStateReset})
	register(&Rule{ID: "STATE.lookahead", Floor: 3,
		Doc: "one-token look-ahead: HasNextToken reads a token only when the cache is empty and never moves otherwise; NextToken hands out the cached token if present, reads one otherwise, and always empties the cache",
		Run: ruleStateLookahead})
}

func ruleStateReset(c *Ctx) []*Obligation { return stateResetFor(c, "STATE.reset", "") }

func stateResetFor(c *Ctx, rule, only string) []*Obligation {
	o := newObl(rule)
	for _, op := range reuseOps {
		if only != "" && op.name != only {
			continue
		}
		resetFn := c.MustFunc(op.pkg, op.typ, op.reset)
		resetStores := c.unconditionalStores(resetFn)
		var resetNames []string
		for f := range resetStores {
			resetNames = append(resetNames, f)
		}
		sort.Strings(resetNames)
		var roots []*ssa.Function
		regionNames := op.region
		if regionNames == nil {
			regionNames = op.entries
		}
		for _, n := range regionNames {
			roots = append(roots, c.MustFunc(op.pkg, op.typ, n))
		}
		// (1) every entry calls the reset routine before anything else
		for _, en := range op.entries {
			fn := c.MustFunc(op.pkg, op.typ, en)
			key := fmt.Sprintf("%s#%s#resets-first", c.FuncKey(fn), op.name)
			calls := allCalls(fn)
			okFirst := false
			for i, ci := range calls {
				if ci.Common().StaticCallee() == resetFn {
					okFirst = true
					for _, earlier := range calls[:i] {
						if g := earlier.Common().StaticCallee(); g != nil && c.InModule(g) && g != resetFn {
							okFirst = false
						}
						if earlier.Common().IsInvoke() {
							okFirst = false
						}
					}
					// must be on every path
					for _, r := range returnsOf(fn) {
						if !ci.Block().Dominates(r.Block()) {
							okFirst = false
						}
					}
				}
			}
			o.check(okFirst, key, c.Pos(fn.Pos()), "calls "+op.reset+"() first, on every path", en+" does not start by calling "+op.reset+"(): state of the previous run (token lists, cursor, names, look-ahead) leaks into this one")
		}
		// (2) fields written during the operation
		// a nested self-resetting operation (the parser running its tokenizer) is verified on its own
		stop := map[*ssa.Function]bool{}
		for _, other := range reuseOps {
			if other.name == op.name {
				continue
			}
			for _, en := range other.entries {
				stop[c.MustFunc(other.pkg, other.typ, en)] = true
			}
			if other.name == "tokenize" {
				for _, en := range []string{"TokenizeBuffer", "TokenizeBufferToStrings"} {
					stop[c.MustFunc(other.pkg, other.typ, en)] = true
				}
			}
		}
		if op.name == "tokenize" {
			stop = nil
		}
		e := c.newEffectEngineStop(roots, stop)
		type fw struct {
			owner, field string
			sites        []writeSite
			stores       []*ssa.Store
		}
		written := map[string]*fw{}
		for f := range e.region {
			for _, b := range f.Blocks {
				for _, in := range b.Instrs {
					st, ok := in.(*ssa.Store)
					if !ok {
						continue
					}
					fa, ok := st.Addr.(*ssa.FieldAddr)
					if !ok {
						continue
					}
					if e.fresh(rootOf(st.Addr), 6) {
						continue
					}
					t := fa.X.Type()
					if p, ok := t.Underlying().(*types.Pointer); ok {
						t = p.Elem()
					}
					owner := shortType(t)
					k := owner + "." + fieldName(fa.X.Type(), fa.Field)
					if written[k] == nil {
						written[k] = &fw{owner: owner, field: fieldName(fa.X.Type(), fa.Field)}
					}
					written[k].stores = append(written[k].stores, st)
				}
			}
		}
		var keys []string
		for k := range written {
			keys = append(keys, k)
		}
		sort.Strings(keys)
		selfOwner := shortType(c.SSA[op.pkg].Type(op.typ).Type())
		for _, k := range keys {
			w := written[k]
			key := fmt.Sprintf("%s.%s#%s#field#%s", op.pkg, op.typ, op.name, k)
			pos := c.Pos(w.stores[0].Pos())
			// (a) reset field of the instance itself
			if w.owner == selfOwner {
				if _, ok := resetStores[w.field]; ok {
					o.ok(key, pos, op.reset+"() assigns it unconditionally")
					continue
				}
			}
			// (b) state of an object held only through a reset field (the scanner handed to SetReader)
			if why, ok := c.heldThroughResetField(op, w.owner, resetStores); ok {
				o.ok(key, pos, why)
				continue
			}
			// (c) always the same constant
			if why, ok := c.idempotentConstant(e, w.stores); ok {
				o.ok(key, pos, why)
				continue
			}
			// (d) re-initialised under a guard made of the reset values
			if why, ok := c.guardReset(op, w.owner, w.field, resetStores, e); ok {
				o.ok(key, pos, why)
				continue
			}
			// (e) owned memo of construction-time data
			if why, ok := c.ownedMemo(w.owner, w.field, w.stores, written); ok {
				o.reviewed(key, pos, why)
				continue
			}
			o.bad(key, pos, fmt.Sprintf("field %s is written while the operation runs but %s() (reset fields: %s) does not re-initialise it and none of the accepted idioms applies: what a reused instance produces depends on what it processed before", k, op.reset, strings.Join(resetNames, ", ")))
		}
	}
	return o.list
}

// heldThroughResetField: objects of type owner are referenced by the instance only through fields that the
// reset routine replaces (e.g. io.StringScanner through AbstractTokenizer.Scanner).
func (c *Ctx) heldThroughResetField(op reuseOp, owner string, resetStores map[string]*ssa.Store) (string, bool) {
	inst := c.SSA[op.pkg].Type(op.typ)
	if inst == nil {
		return "", false
	}
	st, ok := inst.Type().Underlying().(*types.Struct)
	if !ok {
		return "", false
	}
	var via []string
	for i := 0; i < st.NumFields(); i++ {
		f := st.Field(i)
		holds := false
		ft := f.Type()
		if p, ok := ft.(*types.Pointer); ok && shortType(p.Elem()) == owner {
			holds = true
		}
		if iface, ok := ft.Underlying().(*types.Interface); ok {
			// does the owner type implement this interface?
			for _, lp := range c.Lib {
				if obj := lp.Types.Scope().Lookup(strings.TrimPrefix(owner, lp.Types.Name()+".")); obj != nil && shortType(obj.Type()) == owner {
					if types.Implements(types.NewPointer(obj.Type()), iface) && iface.NumMethods() > 0 {
						holds = true
					}
				}
			}
		}
		if holds {
			if _, isReset := resetStores[f.Name()]; !isReset {
				return "", false
			}
			via = append(via, f.Name())
		}
	}
	if len(via) == 0 {
		return "", false
	}
	return fmt.Sprintf("state of an object the instance holds only through %s, which %s() replaces for every run", strings.Join(via, ", "), op.reset), true
}

func (c *Ctx) idempotentConstant(e *effectEngine, stores []*ssa.Store) (string, bool) {
	var val *ssa.Const
	same := func(k *ssa.Const) bool {
		if val == nil {
			val = k
			return true
		}
		return c.sameValue(val, k)
	}
	for _, st := range stores {
		switch v := st.Val.(type) {
		case *ssa.Const:
			if !same(v) {
				return "", false
			}
		case *ssa.Parameter:
			var check func(p *ssa.Parameter, depth int) bool
			check = func(p *ssa.Parameter, depth int) bool {
				fn := p.Parent()
				pi := paramIndex(fn, p)
				edges := e.inEdges[fn]
				if len(edges) == 0 || depth == 0 {
					return false
				}
				for _, ed := range edges {
					arg := edgeArg(ed, pi)
					switch a := arg.(type) {
					case *ssa.Const:
						if !same(a) {
							return false
						}
					case *ssa.Parameter:
						if !check(a, depth-1) {
							return false
						}
					default:
						return false
					}
				}
				return true
			}
			if !check(v, 3) {
				return "", false
			}
		default:
			return "", false
		}
	}
	if val == nil {
		return "", false
	}
	return "every store during the operation writes the same constant (" + val.Name() + "): the value is history-independent", true
}

// guardReset: the field is assigned a constant at the start of every step under a condition that consists
// exactly of reset-routine fields compared with the constants the reset routine stores.
func (c *Ctx) guardReset(op reuseOp, owner, field string, resetStores map[string]*ssa.Store, e *effectEngine) (string, bool) {
	for f := range e.region {
		for _, b := range f.Blocks {
			for _, in := range b.Instrs {
				st, ok := in.(*ssa.Store)
				if !ok {
					continue
				}
				fa, ok := st.Addr.(*ssa.FieldAddr)
				if !ok || fieldName(fa.X.Type(), fa.Field) != field {
					continue
				}
				if _, isK := st.Val.(*ssa.Const); !isK {
					continue
				}
				gs := guardsAt(b)
				if len(gs) == 0 {
					continue
				}
				all := true
				n := 0
				for _, g := range gs {
					cond, truth := g.atom()
					if phi, isPhi := cond.(*ssa.Phi); isPhi && isBoolType(phi.Type()) {
						continue // a named short-circuit condition: its operands follow as separate guards
					}
					bo, ok := cond.(*ssa.BinOp)
					if !ok || (bo.Op != token.EQL && bo.Op != token.NEQ) || (bo.Op == token.EQL) != truth {
						// guards unrelated to the reset (e.g. scanner != nil) are tolerated only if they are nil checks of reset fields
						if ok && isNilConst(bo.Y) {
							continue
						}
						all = false
						continue
					}
					ld, ok := bo.X.(*ssa.UnOp)
					if !ok {
						all = false
						continue
					}
					fa2, ok := ld.X.(*ssa.FieldAddr)
					if !ok {
						all = false
						continue
					}
					rs, isReset := resetStores[fieldName(fa2.X.Type(), fa2.Field)]
					if !isReset || !c.sameValue(rs.Val, bo.Y) {
						if isNilConst(bo.Y) && isReset {
							continue
						}
						all = false
						continue
					}
					n++
				}
				if !all || n == 0 {
					continue
				}
				// no load of the field before the conditional store in this function
				early := false
				for _, b2 := range f.Blocks {
					for _, in2 := range b2.Instrs {
						if ld, ok := in2.(*ssa.UnOp); ok && ld.Op == token.MUL {
							if fa3, ok := ld.X.(*ssa.FieldAddr); ok && fieldName(fa3.X.Type(), fa3.Field) == field && b2.Dominates(b) && b2 != b {
								early = true
							}
						}
					}
				}
				if early {
					continue
				}
				return fmt.Sprintf("re-initialised in %s under a guard that holds right after %s() (%d reset field(s) compared with the values it stores), before the field is read", f.Name(), op.reset, n), true
			}
		}
	}
	return "", false
}

// ownedMemo: a lazily built cache of construction-time data (SymbolNode.ancestry): stored only under an
// emptiness test of itself, from fields that are never written during the operation, into a slice the
// node owns (SYM.ancestry).
func (c *Ctx) ownedMemo(owner, field string, stores []*ssa.Store, written interface{}) (string, bool) {
	if owner != "generic.SymbolNode" || field != "ancestry" {
		return "", false
	}
	for _, st := range stores {
		lazy := false
		for d := st.Block(); d != nil; d = d.Idom() {
			for _, p := range d.Preds {
				if ifi, ok := p.Instrs[len(p.Instrs)-1].(*ssa.If); ok {
					if backwardSliceHas(ifi.Cond, func(v ssa.Value) bool {
						fa, ok := v.(*ssa.FieldAddr)
						return ok && fieldName(fa.X.Type(), fa.Field) == field
					}) {
						lazy = true
					}
				}
			}
		}
		if !lazy {
			return "", false
		}
	}
	res := runRule(c, "SYM.ancestry")
	if res.broken != "" {
		return "", false
	}
	for _, ob := range res.obls {
		if ob.Status != Discharged {
			return "", false
		}
	}
	return "reviewed: lazily built memo of the node's construction-time text (stored only while empty; sources parent/character are never written during tokenization; ownership re-verified by SYM.ancestry)", true
}

func ruleStateLookahead(c *Ctx) []*Obligation {
	o := newObl("STATE.lookahead")
	has := c.MustFunc("tokenizers", "AbstractTokenizer", "HasNextToken")
	next := c.MustFunc("tokenizers", "AbstractTokenizer", "NextToken")
	isRead := func(ci ssa.CallInstruction) bool {
		return ci.Common().IsInvoke() && ci.Common().Method.Name() == "ReadNextToken"
	}
	cacheNilGuard := func(b *ssa.BasicBlock, want bool) bool {
		for _, g := range guardsAt(b) {
			cond, truth := g.atom()
			if bo, ok := cond.(*ssa.BinOp); ok && isNilConst(bo.Y) {
				isCache := isFieldLoad(bo.X, "NextTokenValue")
				if !isCache {
					// a local copy of the cache
					if phiOrLoadOfField(bo.X, "NextTokenValue") {
						isCache = true
					}
				}
				if isCache && ((bo.Op == token.EQL) == truth) == want {
					return true
				}
			}
		}
		return false
	}
	// HasNextToken
	{
		key := c.FuncKey(has) + "#reads-only-when-empty"
		n, good := 0, true
		for _, ci := range allCalls(has) {
			if isRead(ci) {
				n++
				if !cacheNilGuard(ci.Block(), true) {
					good = false
				}
				// result stored into the cache
				stored := false
				if v, ok := ci.(*ssa.Call); ok {
					for _, r := range *v.Referrers() {
						if st, ok := r.(*ssa.Store); ok {
							if fa, ok := st.Addr.(*ssa.FieldAddr); ok && fieldName(fa.X.Type(), fa.Field) == "NextTokenValue" {
								stored = true
							}
						}
					}
				}
				if !stored {
					good = false
				}
			}
		}
		o.check(n == 1 && good, key, c.Pos(has.Pos()), "reads one token into the cache only under cache == nil", "HasNextToken reads a token although one may already be cached (or does not cache what it read): asking twice consumes a token")
	}
	// NextToken
	{
		key := c.FuncKey(next) + "#cached-or-read"
		n, good := 0, true
		for _, ci := range allCalls(next) {
			if isRead(ci) {
				n++
				if !cacheNilGuard(ci.Block(), true) {
					good = false
				}
			}
		}
		o.check(n == 1 && good, key, c.Pos(next.Pos()), "reads a token only when nothing is cached", "NextToken reads a new token although one is cached (the cached token is lost) or never reads")
		key2 := c.FuncKey(next) + "#clears-cache"
		// on every return the cache is empty: a nil store dominates the return, or the return is
		// reached only with the cache tested empty; and NextToken never stores anything else into it
		cleared := true
		var nilStores []*ssa.Store
		for _, b := range next.Blocks {
			for _, in := range b.Instrs {
				if st, ok := in.(*ssa.Store); ok {
					if fa, ok := st.Addr.(*ssa.FieldAddr); ok && fieldName(fa.X.Type(), fa.Field) == "NextTokenValue" {
						if isNilConst(st.Val) {
							nilStores = append(nilStores, st)
						} else {
							cleared = false
						}
					}
				}
			}
		}
		for _, ret := range returnsOf(next) {
			okRet := cacheNilGuard(ret.Block(), true)
			for _, st := range nilStores {
				if instrDominates(st, ret) {
					okRet = true
				}
			}
			if !okRet {
				cleared = false
			}
		}
		o.check(cleared, key2, c.Pos(next.Pos()), "the cache is empty on every return", "NextToken does not always empty the look-ahead cache: the same token is delivered twice")
		// returns cached-or-read value
		key3 := c.FuncKey(next) + "#returns-it"
		hasCache, hasRead, other := false, false, false
		for _, ret := range returnsOf(next) {
			for _, l := range phiLeaves(ret.Results[0]) {
				switch {
				case isFieldLoad(l, "NextTokenValue"):
					hasCache = true
				case func() bool { call, ok := l.(*ssa.Call); return ok && isRead(call) }():
					hasRead = true
				case isNilConst(l):
				default:
					other = true
				}
			}
		}
		o.check(hasCache && hasRead && !other, key3, c.Pos(next.Pos()), "returns the cached token or the one just read", "NextToken does not return the cached-or-read token")
	}
	return o.list
}

func phiOrLoadOfField(v ssa.Value, field string) bool {
	for _, l := range phiLeaves(v) {
		if isFieldLoad(l, field) {
			return true
		}
	}
	return false
}
