package main

import (
	"crypto/sha1"
	"encoding/hex"
	"encoding/json"
	"fmt"
	"os"
	"path/filepath"
	"regexp"
	"sort"
	"strconv"
	"strings"
	"sync"
)

type Status string

const (
	Discharged Status = "discharged"
	Violated   Status = "violated"
	Undecided  Status = "undecided"
)

// Obligation is one proof obligation produced by a rule on one construct.
// Key (= Rule + "|" + Construct) never contains a line number.
type Obligation struct {
	Rule      string `json:"rule"`
	Construct string `json:"construct"`
	Pos       string `json:"pos"`
	Status    Status `json:"status"`
	By        string `json:"by"` // discharge argument or witness
	Trivial   bool   `json:"trivial,omitempty"`
	Reviewed  bool   `json:"reviewed,omitempty"`
}

func (o *Obligation) Key() string { return o.Rule + "|" + o.Construct }

// Rule is a named analysis producing obligations.
type Rule struct {
	ID    string
	Doc   string
	Floor int // vacuity floor: minimum number of obligations confirmed by hand on the reference tree
	Run   func(c *Ctx) []*Obligation
}

// obl is a small builder used by the rules.
type obl struct {
	rule string
	list []*Obligation
}

func newObl(rule string) *obl { return &obl{rule: rule} }

func (b *obl) ok(construct, pos, by string) {
	b.list = append(b.list, &Obligation{Rule: b.rule, Construct: construct, Pos: pos, Status: Discharged, By: by})
}
func (b *obl) triv(construct, pos, by string) {
	b.list = append(b.list, &Obligation{Rule: b.rule, Construct: construct, Pos: pos, Status: Discharged, By: by, Trivial: true})
}
func (b *obl) reviewed(construct, pos, by string) {
	b.list = append(b.list, &Obligation{Rule: b.rule, Construct: construct, Pos: pos, Status: Discharged, By: by, Reviewed: true})
}
func (b *obl) bad(construct, pos, witness string) {
	b.list = append(b.list, &Obligation{Rule: b.rule, Construct: construct, Pos: pos, Status: Violated, By: witness})
}
func (b *obl) undecided(construct, pos, why string) {
	b.list = append(b.list, &Obligation{Rule: b.rule, Construct: construct, Pos: pos, Status: Undecided, By: why})
}
func (b *obl) check(cond bool, construct, pos, okBy, badBy string) {
	if cond {
		b.ok(construct, pos, okBy)
	} else {
		b.bad(construct, pos, badBy)
	}
}

// ---- known findings ------------------------------------------------------------------------

type KnownFinding struct {
	Properties []string `json:"properties"`
	Key        string   `json:"key"`
	What       string   `json:"what"`
}

type FixedFinding struct {
	Properties []string `json:"properties"`
	Key        string   `json:"key"`
	Commit     string   `json:"commit"`
	What       string   `json:"what"`
}

type KnownFile struct {
	Comment  string         `json:"comment"`
	Findings []KnownFinding `json:"findings"`
	Fixed    []FixedFinding `json:"fixed"`
}

func loadKnown(verifDir string) (*KnownFile, error) {
	b, err := os.ReadFile(filepath.Join(verifDir, "known_findings.json"))
	if err != nil {
		if os.IsNotExist(err) {
			return &KnownFile{}, nil
		}
		return nil, err
	}
	var k KnownFile
	if err := json.Unmarshal(b, &k); err != nil {
		return nil, fmt.Errorf("known_findings.json: %w", err)
	}
	return &k, nil
}

func (k *KnownFile) lookup(prop, key string) *KnownFinding {
	for i := range k.Findings {
		f := &k.Findings[i]
		if f.Key != key {
			continue
		}
		for _, p := range f.Properties {
			if p == prop {
				return f
			}
		}
	}
	return nil
}

// ---- property checks -----------------------------------------------------------------------

type Property struct {
	ID          string
	Title       string
	Rules       []string
	Explanation string
	Assumptions []string
	NotDecided  string
	LevelText   string
	LevelNote   string
	Technique   string
	NAReason    string
}

type RuleSummary struct {
	Rule       string `json:"rule"`
	Scope      string `json:"scope,omitempty"`
	Doc        string `json:"doc"`
	Instances  int    `json:"instances"`
	Floor      int    `json:"floor"`
	Discharged int    `json:"discharged"`
	Reviewed   int    `json:"reviewed"`
	Violated   int    `json:"violated"`
	Undecided  int    `json:"undecided"`
}

type Report struct {
	Property   string      `json:"property"`
	Obligation *Obligation `json:"obligation"`
	RuleDoc    string      `json:"rule_doc"`
	Replay     string      `json:"replay"`
}

func writeJSON(path string, v any) error {
	b, err := json.MarshalIndent(v, "", " ")
	if err != nil {
		return err
	}
	if err := os.MkdirAll(filepath.Dir(path), 0o755); err != nil {
		return err
	}
	tmp := path + ".tmp"
	if err := os.WriteFile(tmp, append(b, '\n'), 0o644); err != nil {
		return err
	}
	return os.Rename(tmp, path)
}

func shortHash(s string) string {
	h := sha1.Sum([]byte(s))
	return hex.EncodeToString(h[:])[:10]
}

func sortObligations(os []*Obligation) {
	sort.SliceStable(os, func(i, j int) bool {
		if os[i].Rule != os[j].Rule {
			return os[i].Rule < os[j].Rule
		}
		return os[i].Construct < os[j].Construct
	})
}

func countDistinctNontrivial(os []*Obligation) int {
	seen := map[string]bool{}
	for _, o := range os {
		if o.Trivial {
			continue
		}
		seen[o.Key()] = true
	}
	return len(seen)
}

// countDistinctCases: distinct non-trivial obligations, each weighted by the number of distinct inputs
// of its abstract-run family (the inputs of one family are pairwise distinct by construction).
func countDistinctCases(os []*Obligation) int {
	seen := map[string]bool{}
	n := 0
	for _, o := range os {
		if o.Trivial || seen[o.Key()] {
			continue
		}
		seen[o.Key()] = true
		n += caseCount(o)
	}
	return n
}

func sampleObligations(os []*Obligation, perRule int) []any {
	cnt := map[string]int{}
	var out []any
	for _, o := range os {
		if o.Trivial && cnt[o.Rule] > 0 {
			continue
		}
		if cnt[o.Rule] >= perRule {
			continue
		}
		cnt[o.Rule]++
		out = append(out, map[string]any{
			"rule": o.Rule, "construct": o.Construct, "pos": o.Pos, "status": o.Status, "argument": o.By,
		})
	}
	return out
}

// ---- samples of abstract runs (evidence) --------------------------------------------------------------

var sampleMu sync.Mutex
var caseSamples = map[string][]string{}

// noteSample keeps the first few inputs of each abstract-run family for the evidence file.
func noteSample(rule, text string) {
	sampleMu.Lock()
	defer sampleMu.Unlock()
	if len(caseSamples[rule]) < 4 {
		if len(text) > 300 {
			text = text[:300] + "…"
		}
		caseSamples[rule] = append(caseSamples[rule], text)
	}
}

func abstractRunSamples(rules map[string]bool) []any {
	sampleMu.Lock()
	defer sampleMu.Unlock()
	var keys []string
	for k := range caseSamples {
		if rules[strings.SplitN(k, "/", 2)[0]] {
			keys = append(keys, k)
		}
	}
	sort.Strings(keys)
	var out []any
	for _, k := range keys {
		out = append(out, map[string]any{"abstract_run_family": k, "inputs": caseSamples[k]})
	}
	return out
}

var reLeadingCount = regexp.MustCompile(`^([0-9]+) `)

// caseCount: the number of cases an obligation stands for (the leading count of its discharge text, else 1).
func caseCount(o *Obligation) int {
	if m := reLeadingCount.FindStringSubmatch(o.By); m != nil {
		n, _ := strconv.Atoi(m[1])
		if n > 0 {
			return n
		}
	}
	return 1
}

func joinNonEmpty(sep string, parts ...string) string {
	var p []string
	for _, s := range parts {
		if strings.TrimSpace(s) != "" {
			p = append(p, s)
		}
	}
	return strings.Join(p, sep)
}
