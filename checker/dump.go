package main

import (
	"fmt"
	"os"
)

func init() {
	extraCmds["dump"] = func(args []string) int {
		repo := "/repo"
		if v := os.Getenv("REPO"); v != "" {
			repo = v
		}
		c, err := Load(repo, "quick")
		if err != nil {
			fmt.Fprintln(os.Stderr, err)
			return 2
		}
		for i := 0; i+2 < len(args); i += 3 {
			fn := c.Func(args[i], args[i+1], args[i+2])
			if fn == nil {
				fmt.Println("not found", args[i:i+3])
				continue
			}
			fn.WriteTo(os.Stdout)
			for _, a := range fn.AnonFuncs {
				a.WriteTo(os.Stdout)
			}
		}
		return 0
	}
}
