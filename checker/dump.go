package main

import (
	"fmt"
	"os"
)

func init() {
	extraCmds["dump"] = func(args []string) int {
		repo := "/repo"
		if v := os.Getenv("REPO"); v != "" {
			repo = v
		}
		c, err := Load(repo, "quick")
		if err != nil {
			fmt.Fprintln(os.Stderr, err)
			return 2
		}
		for i := 0; i+2 < len(args); i += 3 {
			fn := c.Func(args[i], args[i+1], args[i+2])
			if fn == nil {
				fmt.Println("not found", args[i:i+3])
				continue
			}
			fn.WriteTo(os.Stdout)
			for _, a := range fn.AnonFuncs {
				a.WriteTo(os.Stdout)
			}
		}
		return 0
	}
}

func init() {
	// rule <ID>... : run single rules and print their obligations (REPO, TIER env)
	extraCmds["rule"] = func(args []string) int {
		repo, tier := "/repo", "quick"
		if v := os.Getenv("REPO"); v != "" {
			repo = v
		}
		if v := os.Getenv("TIER"); v != "" {
			tier = v
		}
		c, err := Load(repo, tier)
		if err != nil {
			fmt.Fprintln(os.Stderr, err)
			return 2
		}
		for _, id := range args {
			r := runRule(c, id)
			if r.broken != "" {
				fmt.Println("BROKEN", id, r.broken)
				continue
			}
			for _, ob := range r.obls {
				if ob.Status != Discharged || os.Getenv("V") != "" {
					fmt.Printf("%s %s %s\n    %s\n", ob.Status, ob.Rule, ob.Construct, ob.By)
				}
			}
			fmt.Printf("%s: %d obligations\n", id, len(r.obls))
		}
		return 0
	}
}
