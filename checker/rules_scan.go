package main

import (
	"fmt"
	"sort"

	"golang.org/x/tools/go/ssa"
)

// ---------------------------------------------------------------------------------------------
// SCAN / POS — tokenizer states over the abstract scanner (C04, C12)
// ---------------------------------------------------------------------------------------------

var scanResultsMemo map[*ssa.Function]*scanExec

// tokenizerStateFuncs: every NextToken declared on a type implementing ITokenizerState.
func (c *Ctx) tokenizerStateFuncs() []*ssa.Function {
	var out []*ssa.Function
	seen := map[*ssa.Function]bool{}
	for _, nt := range c.implsOf("tokenizers", "ITokenizerState") {
		if f := c.methodOf(nt, "NextToken", true); f != nil && !seen[f] && f.Blocks != nil {
			seen[f] = true
			out = append(out, f)
		}
	}
	sort.Slice(out, func(i, j int) bool { return c.FuncKey(out[i]) < c.FuncKey(out[j]) })
	return out
}

func (c *Ctx) scanResults() map[*ssa.Function]*scanExec {
	if scanResultsMemo != nil {
		return scanResultsMemo
	}
	scanResultsMemo = map[*ssa.Function]*scanExec{}
	for _, f := range c.tokenizerStateFuncs() {
		scanResultsMemo[f] = c.runScanExec(f)
	}
	return scanResultsMemo
}

func init() {
	register(&Rule{ID: "SCAN.balance", Floor: 14,
		Doc: "every tokenizer state, on every path (loops unrolled, branch conditions on characters assumed both ways, contradictions pruned): the returned token's value is exactly the characters consumed and not pushed back, in order, nothing written that was not read, no character known or possibly the end-of-input marker written as data; a delegation to another state happens with the scanner back at the entry position, the end-of-input slot included",
		Run: ruleScanBalance})
	register(&Rule{ID: "POS.capture", Floor: 12,
		Doc: "every token a state builds carries Line()/Column() taken right after its first character was read, or PeekLine()/PeekColumn() taken before the scanner moved",
		Run: rulePosCapture})
	register(&Rule{ID: "SCAN.fallback", Floor: 2,
		Doc: "main loop: a character without a usable state becomes a one-character Unknown token whose value is exactly the character read; the unknown/empty test reads exactly one character",
		Run: ruleScanFallback})
}

func ruleScanBalance(c *Ctx) []*Obligation {
	o := newObl("SCAN.balance")
	res := c.scanResults()
	for _, f := range c.tokenizerStateFuncs() {
		x := res[f]
		if x.aborted != "" {
			o.undecided(c.FuncKey(f)+"#paths", c.Pos(f.Pos()), x.aborted)
			continue
		}
		sites, agg, counts := x.bySite()
		if len(sites) == 0 {
			o.bad(c.FuncKey(f)+"#paths", c.Pos(f.Pos()), "no path of this state returns a token")
			continue
		}
		for _, s := range sites {
			a := agg[s]
			key := c.FuncKey(f) + "#" + s
			if a.ok {
				o.ok(key, c.Pos(a.pos), fmt.Sprintf("%d path(s): %s", counts[s], a.msg))
			} else {
				o.bad(key, c.Pos(a.pos), a.msg)
			}
		}
	}
	return o.list
}

func rulePosCapture(c *Ctx) []*Obligation {
	o := newObl("POS.capture")
	res := c.scanResults()
	for _, f := range c.tokenizerStateFuncs() {
		x := res[f]
		if x.aborted != "" {
			continue
		}
		sites, agg, counts := x.bySite()
		for _, s := range sites {
			a := agg[s]
			if !a.isTok {
				continue
			}
			key := c.FuncKey(f) + "#" + s + "#position"
			if a.posOK {
				o.ok(key, c.Pos(a.pos), fmt.Sprintf("%d path(s): position captured at the token's first character", counts[s]))
			} else {
				o.bad(key, c.Pos(a.pos), "the token does not report the position of its first character — "+a.posMsg)
			}
		}
	}
	return o.list
}

func ruleScanFallback(c *Ctx) []*Obligation {
	o := newObl("SCAN.fallback")
	fn := c.MustFunc("tokenizers", "AbstractTokenizer", "ReadNextToken")
	// derived from the exhaustive model of the loop: in each of the three situations without a usable
	// token (no state for the character, the state returns nil, the state returns an empty token) and
	// with no option set, the loop reads exactly one character and emits Unknown(<that character>)
	names := c.constNames("tokenizers", "")
	unk, _ := c.constByName("tokenizers", "Unknown")
	type sit struct {
		n          int
		bad, undec string
	}
	sits := map[string]*sit{}
	for _, run := range c.mainLoopRuns() {
		if !(run.sc.stateNil || run.sc.tokNil || run.sc.tokEmpty) || run.sc.eof {
			continue
		}
		anyOpt := false
		for _, v := range run.sc.opts {
			anyOpt = anyOpt || v
		}
		if anyOpt {
			continue
		}
		g := run.sc.group(names)
		if sits[g] == nil {
			sits[g] = &sit{}
		}
		sits[g].n++
		r := run.res
		reads := 0
		for _, op := range r.ops {
			if op == "Read" {
				reads++
			}
			if op == "Unread" || op == "UnreadMany" {
				reads += 100
			}
		}
		switch {
		case r.outcome == "opaque":
			sits[g].undec = r.why
		case r.outcome != "emit" || r.tok == nil || r.tok.typ != unk || r.tok.val != "char(read)" || reads != 1:
			sits[g].bad = "the fallback token is not an Unknown token holding exactly the one character read (a constant or a different value is emitted, or the number of characters read is not one)"
		}
	}
	for _, g := range []string{"character without a state", "state returns no token", "state returns an empty token"} {
		key := c.FuncKey(fn) + "#unknown-fallback#" + g
		st := sits[g]
		switch {
		case st == nil:
			o.bad(key, c.Pos(fn.Pos()), "the model of the main loop has no scenario for: "+g)
		case st.undec != "":
			o.undecided(key, c.Pos(fn.Pos()), st.undec)
		case st.bad != "":
			o.bad(key, c.Pos(fn.Pos()), st.bad)
		default:
			o.ok(key, c.Pos(fn.Pos()), "one Read, token Unknown(<the character read>)")
		}
	}
	// the mustache tokenizer returns the special-state token only when non-empty, otherwise falls through without consuming
	mt := c.MustFunc("mustache/tokenizers", "MustacheTokenizer", "ReadNextToken")
	key2 := c.FuncKey(mt) + "#special-then-base"
	okM := false
	for _, ci := range allCalls(mt) {
		if g := ci.Common().StaticCallee(); g != nil && g.Name() == "ReadNextToken" && c.FuncKey(g) == "tokenizers.(*AbstractTokenizer).ReadNextToken" {
			okM = true
		}
	}
	o.check(okM, key2, c.Pos(mt.Pos()), "falls back to the base loop when the special state yields nothing", "the mustache tokenizer no longer falls back to the base token loop")
	return o.list
}
