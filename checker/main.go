// verifchk — repository-specific static checker for pip-services3-expressions-gox.
//
// It decides structural clauses of the properties in /verif/properties.jsonl from the type-checked
// source (go/packages + go/types + go/ssa); it never executes repository code.
package main

import (
	"encoding/json"
	"flag"
	"fmt"
	"os"
	"path/filepath"
	"runtime/debug"
	"sort"
	"strconv"
	"strings"
	"sync/atomic"
	"time"
)

var allRules = map[string]*Rule{}

var extraCmds = map[string]func([]string) int{}

func register(r *Rule) {
	if _, dup := allRules[r.ID]; dup {
		panic("duplicate rule " + r.ID)
	}
	allRules[r.ID] = r
}

type ruleResult struct {
	obls   []*Obligation
	broken string // non-empty: rule could not run (panic, unresolved anchor)
}

var verboseObl bool

var ruleCache = map[string]*ruleResult{}

func runRule(c *Ctx, id string) (res *ruleResult) {
	if r, ok := ruleCache[id]; ok {
		return r
	}
	res = &ruleResult{}
	defer func() {
		if p := recover(); p != nil {
			if ae, ok := p.(anchorError); ok {
				res.broken = string(ae)
			} else {
				res.broken = fmt.Sprintf("analysis panic in %s: %v\n%s", id, p, debug.Stack())
			}
		}
		ruleCache[id] = res
	}()
	r := allRules[id]
	if r == nil {
		res.broken = "unknown rule " + id
		return
	}
	res.obls = r.Run(c)
	sortObligations(res.obls)
	return
}

func main() {
	// the loaded program is a large, long-lived heap; the abstract machine allocates small short-lived
	// values: collect less often
	debug.SetGCPercent(400)
	if len(os.Args) < 2 {
		usage()
	}
	switch os.Args[1] {
	case "check":
		os.Exit(cmdCheck(os.Args[2:]))
	case "all":
		os.Exit(cmdAll(os.Args[2:]))
	case "explain":
		os.Exit(cmdExplain(os.Args[2:]))
	case "rules":
		ids := make([]string, 0, len(allRules))
		for id := range allRules {
			ids = append(ids, id)
		}
		sort.Strings(ids)
		for _, id := range ids {
			fmt.Printf("%-22s floor=%-3d %s\n", id, allRules[id].Floor, allRules[id].Doc)
		}
	case "props":
		for _, p := range properties {
			fmt.Printf("%s %s\n", p.ID, strings.Join(p.Rules, ","))
		}
	case "mutants":
		os.Exit(cmdMutants(os.Args[2:]))
	default:
		if f, ok := extraCmds[os.Args[1]]; ok {
			os.Exit(f(os.Args[2:]))
		}
		usage()
	}
}

func usage() {
	fmt.Fprintln(os.Stderr, "usage: verifchk check <PROP> [--tier quick|thorough] [--repo DIR] [--verif DIR]\n       verifchk all [--repo DIR]\n       verifchk explain <report.json>\n       verifchk mutants <PROP|all>\n       verifchk rules | props")
	os.Exit(2)
}

func findProperty(id string) *Property {
	for i := range properties {
		if properties[i].ID == id {
			return &properties[i]
		}
	}
	return nil
}

func seedFromEnv() int {
	if s := os.Getenv("VERIF_SEED"); s != "" {
		if n, err := strconv.Atoi(s); err == nil {
			return n
		}
	}
	return 0
}

type checkOutcome struct {
	exit       int
	violations int
	known      int
}

func cmdCheck(args []string) int {
	fs := flag.NewFlagSet("check", flag.ExitOnError)
	tier := fs.String("tier", envOr("VERIF_TIER", "quick"), "quick|thorough")
	repo := fs.String("repo", "/repo", "repository root")
	verif := fs.String("verif", defaultVerifDir(), "verification dir")
	noEvidence := fs.Bool("no-evidence", false, "do not write evidence (used by the mutant runner)")
	verbose := fs.Bool("v", false, "print every obligation")
	var prop string
	if len(args) > 0 && !strings.HasPrefix(args[0], "-") {
		prop = args[0]
		args = args[1:]
	}
	fs.Parse(args)
	if prop == "" && fs.NArg() > 0 {
		prop = fs.Arg(0)
	}
	p := findProperty(prop)
	if p == nil {
		fmt.Fprintf(os.Stderr, "unknown property %q\n", prop)
		return 2
	}
	start := time.Now()
	c, err := Load(*repo, *tier)
	if err != nil {
		fmt.Fprintf(os.Stderr, "BROKEN property=%s load failed: %v\n", p.ID, err)
		return 2
	}
	known, err := loadKnown(*verif)
	if err != nil {
		fmt.Fprintf(os.Stderr, "BROKEN property=%s %v\n", p.ID, err)
		return 2
	}
	verboseObl = *verbose
	out := checkProperty(c, p, known, *verif, !*noEvidence, start)
	return out.exit
}

func checkProperty(c *Ctx, p *Property, known *KnownFile, verifDir string, writeEvidence bool, start time.Time) checkOutcome {
	var all []*Obligation
	var summaries []RuleSummary
	broken := []string{}
	for _, ref := range p.Rules {
		id, scopes, floor := ruleRef(ref)
		res := runRule(c, id)
		r := allRules[id]
		if res.broken != "" {
			broken = append(broken, res.broken)
			continue
		}
		obls := scopeFilter(res.obls, scopes)
		if floor < 0 {
			floor = r.Floor
		}
		s := RuleSummary{Rule: id, Doc: r.Doc, Floor: floor, Instances: len(obls), Scope: strings.Join(scopes, " ; ")}
		for _, o := range obls {
			switch o.Status {
			case Discharged:
				s.Discharged++
				if o.Reviewed {
					s.Reviewed++
				}
			case Violated:
				s.Violated++
			case Undecided:
				s.Undecided++
			}
		}
		summaries = append(summaries, s)
		all = append(all, obls...)
	}
	out := checkOutcome{}
	var undecided []string
	for _, o := range all {
		if verboseObl {
			fmt.Printf("  [%s] %s @%s :: %s\n", o.Status, o.Key(), o.Pos, o.By)
		}
		switch o.Status {
		case Violated:
			if kf := known.lookup(p.ID, o.Key()); kf != nil {
				fmt.Printf("KNOWN-FINDING: property=%s %s %s (%s)\n", p.ID, o.Key(), kf.What, o.Pos)
				out.known++
				continue
			}
			out.violations++
			path := filepath.Join(verifDir, "evidence", "reports", p.ID+"-"+shortHash(o.Key())+".json")
			rep := Report{Property: p.ID, Obligation: o, RuleDoc: allRules[o.Rule].Doc,
				Replay: "bin/verifchk explain " + path}
			if err := writeJSON(path, rep); err != nil {
				fmt.Fprintf(os.Stderr, "cannot write report: %v\n", err)
			}
			fmt.Printf("VIOLATION property=%s replay=%s\n", p.ID, path)
			fmt.Printf("  rule=%s construct=%s at %s\n  witness: %s\n", o.Rule, o.Construct, o.Pos, o.By)
		case Undecided:
			undecided = append(undecided, fmt.Sprintf("%s at %s: %s", o.Key(), o.Pos, o.By))
		}
	}
	// vacuity floors
	var vacuous []string
	for _, s := range summaries {
		if s.Instances < s.Floor && s.Violated == 0 {
			vacuous = append(vacuous, fmt.Sprintf("%s: %d instances < floor %d", s.Rule, s.Instances, s.Floor))
		}
	}
	switch {
	case out.violations > 0:
		out.exit = 1
	case len(broken) > 0 || len(undecided) > 0 || len(vacuous) > 0:
		out.exit = 2
	}
	for _, b := range broken {
		fmt.Fprintf(os.Stderr, "BROKEN property=%s %s\n", p.ID, b)
	}
	for _, u := range undecided {
		fmt.Fprintf(os.Stderr, "UNDECIDED property=%s %s\n", p.ID, u)
	}
	for _, v := range vacuous {
		fmt.Fprintf(os.Stderr, "VACUOUS property=%s %s\n", p.ID, v)
	}
	var sensitivity map[string]any
	if c.Tier == "thorough" && writeEvidence && out.exit == 0 {
		var code int
		sensitivity, code = thoroughExtras(c, p, verifDir)
		if code != 0 {
			out.exit = code
		}
	}
	if writeEvidence {
		discharged := 0
		for _, o := range all {
			if o.Status == Discharged {
				discharged++
			}
		}
		cgNodes := 0
		if c.cg != nil {
			cgNodes = len(c.cg.Nodes)
		}
		evaluations := 0
		ruleSet := map[string]bool{}
		for _, o := range all {
			evaluations += caseCount(o)
			ruleSet[o.Rule] = true
		}
		crashMu.Lock()
		abstractCalls, entryPoints := 0, len(crashLog)
		for _, e := range crashLog {
			abstractCalls += int(atomic.LoadInt64(&e.calls))
		}
		crashMu.Unlock()
		entered, totalFns, notEntered := c.coverageSummary()
		if len(notEntered) > 80 {
			notEntered = append(notEntered[:80], fmt.Sprintf("… and %d more", len(notEntered)-80))
		}
		ev := map[string]any{
			"property_id": p.ID,
			"tier":        c.Tier,
			"seed":        seedFromEnv(),
			"level":       "other",
			"coverage": map[string]any{
				"explanation":         p.Explanation,
				"not_decided":         p.NotDecided,
				"evaluations":         evaluations,
				"distinct_nontrivial": countDistinctCases(all),
				"rule": "evaluations = cases decided on this run: one per all-path obligation (rule × construct) plus, for an abstract-interpretation obligation, one per abstract run of its family (the count its discharge text starts with); distinct_nontrivial counts the same cases over distinct non-trivial obligations (the inputs of one family are pairwise distinct by construction; constant-only discharges are trivial and excluded); samples lists obligations and, per family, some of the inputs evaluated; (abstract_entry_point_calls is the total number of calls the abstract machine made into exported entry points in this process); " +
					"distinct = distinct rule|construct keys; non-trivial = the discharge needed a guard, dataflow, table, path or abstract-run argument (constant-only discharges are marked trivial and not counted)",
				"abstract_entry_point_calls":       abstractCalls,
				"abstract_entry_points":            entryPoints,
				"module_functions_entered_by_runs": entered,
				"module_functions_with_bodies":     totalFns,
				"module_functions_not_entered":     notEntered,
				"samples":                          append(sampleObligations(all, 3), abstractRunSamples(ruleSet)...),
				"obligations":                      len(all),
				"discharged":                       discharged,
				"known_findings":                   out.known,
				"undecided":                        len(undecided),
				"rules":                            summaries,
				"library_packages":                 len(c.Lib),
				"library_functions":                len(c.AllLibFuncs()),
				"callgraph":                        c.cgKind,
				"callgraph_nodes":                  cgNodes,
				"checker_cmd":                      "bin/verifchk check " + p.ID + " --tier " + c.Tier,
				"exhaustive":                       false,
				"broken":                           broken,
				"vacuous":                          vacuous,
				"sensitivity":                      sensitivity,
				"deciding_technique":               "static analysis of the type-checked program (go/types, go/ssa): all-path dataflow / guard / effect rules, and abstract interpretation of the SSA by the checker's own machine over finite input partitions; no repository code is compiled or executed",
			},
			"assumptions": p.Assumptions,
			"wall_s":      time.Since(start).Seconds(),
			"violations":  out.violations,
		}
		if err := writeJSON(filepath.Join(verifDir, "evidence", p.ID+".json"), ev); err != nil {
			fmt.Fprintf(os.Stderr, "cannot write evidence: %v\n", err)
			if out.exit == 0 {
				out.exit = 2
			}
		}
	}
	fmt.Printf("property=%s tier=%s obligations=%d violations=%d known=%d undecided=%d wall=%.1fs\n",
		p.ID, c.Tier, len(all), out.violations, out.known, len(undecided), time.Since(start).Seconds())
	return out
}

// cmdAll runs every property in one process (development aid and mutant runner back end).
func cmdAll(args []string) int {
	fs := flag.NewFlagSet("all", flag.ExitOnError)
	tier := fs.String("tier", "quick", "quick|thorough")
	repo := fs.String("repo", "/repo", "repository root")
	verif := fs.String("verif", defaultVerifDir(), "verification dir")
	jsonOut := fs.Bool("json", false, "print violated/undecided obligations as JSON lines")
	evidence := fs.Bool("evidence", false, "also write evidence files")
	only := fs.String("props", "", "comma-separated property ids (default all)")
	fs.Parse(args)
	start := time.Now()
	c, err := Load(*repo, *tier)
	if err != nil {
		fmt.Fprintf(os.Stderr, "BROKEN load failed: %v\n", err)
		return 2
	}
	known, err := loadKnown(*verif)
	if err != nil {
		fmt.Fprintf(os.Stderr, "BROKEN %v\n", err)
		return 2
	}
	want := map[string]bool{}
	for _, s := range strings.Split(*only, ",") {
		if s != "" {
			want[s] = true
		}
	}
	worst := 0
	if *jsonOut {
		seen := map[string]bool{}
		enc := json.NewEncoder(os.Stdout)
		for i := range properties {
			p := &properties[i]
			if len(want) > 0 && !want[p.ID] {
				continue
			}
			for _, ref := range p.Rules {
				id, scopes, _ := ruleRef(ref)
				res := runRule(c, id)
				if res.broken != "" && !seen["broken|"+id] {
					seen["broken|"+id] = true
					enc.Encode(map[string]any{"rule": id, "status": "broken", "by": res.broken})
				}
				for _, o := range scopeFilter(res.obls, scopes) {
					if o.Status == Discharged || seen[o.Key()] {
						continue
					}
					seen[o.Key()] = true
					enc.Encode(o)
				}
			}
		}
		return 0
	}
	for i := range properties {
		p := &properties[i]
		if len(want) > 0 && !want[p.ID] {
			continue
		}
		out := checkProperty(c, p, known, *verif, *evidence, start)
		if out.exit > worst {
			worst = out.exit
		}
	}
	return worst
}

func cmdExplain(args []string) int {
	fs := flag.NewFlagSet("explain", flag.ExitOnError)
	repo := fs.String("repo", "/repo", "repository root")
	fs.Parse(args)
	if fs.NArg() < 1 {
		usage()
	}
	b, err := os.ReadFile(fs.Arg(0))
	if err != nil {
		fmt.Fprintln(os.Stderr, err)
		return 2
	}
	var rep Report
	if err := json.Unmarshal(b, &rep); err != nil || rep.Obligation == nil {
		fmt.Fprintf(os.Stderr, "not a report: %v\n", err)
		return 2
	}
	c, err := Load(*repo, "quick")
	if err != nil {
		fmt.Fprintf(os.Stderr, "load failed: %v\n", err)
		return 2
	}
	res := runRule(c, rep.Obligation.Rule)
	if res.broken != "" {
		fmt.Fprintln(os.Stderr, res.broken)
		return 2
	}
	fmt.Printf("rule %s: %s\n", rep.Obligation.Rule, allRules[rep.Obligation.Rule].Doc)
	for _, o := range res.obls {
		if o.Key() == rep.Obligation.Key() {
			fmt.Printf("construct %s at %s\nstatus: %s\n%s\n", o.Construct, o.Pos, o.Status, o.By)
			if o.Status == Violated {
				fmt.Printf("VIOLATION property=%s replay=%s\n", rep.Property, fs.Arg(0))
				return 1
			}
			return 0
		}
	}
	fmt.Printf("construct %s no longer produces an obligation on the current tree\n", rep.Obligation.Construct)
	return 0
}

func envOr(k, d string) string {
	if v := os.Getenv(k); v != "" {
		return v
	}
	return d
}

func defaultVerifDir() string {
	if v := os.Getenv("VERIF_DIR"); v != "" {
		return v
	}
	exe, err := os.Executable()
	if err == nil {
		d := filepath.Dir(filepath.Dir(exe))
		if _, err := os.Stat(filepath.Join(d, "properties.jsonl")); err == nil {
			return d
		}
	}
	return "/verif"
}

// ruleRef splits a property's rule reference "RULE@prefix;prefix#floor": the property takes only the
// rule's obligations whose construct starts with one of the prefixes (the rule itself always runs
// module-wide); floor is the vacuity floor for that slice (-1: the rule's own floor).
func ruleRef(ref string) (id string, scopes []string, floor int) {
	floor = -1
	id = ref
	if i := strings.IndexByte(ref, '@'); i >= 0 {
		id = ref[:i]
		rest := ref[i+1:]
		floor = 1
		// a trailing "#<number>" is the floor; constructs themselves may contain '#'
		if j := strings.LastIndexByte(rest, '#'); j >= 0 {
			if n, err := strconv.Atoi(rest[j+1:]); err == nil {
				floor = n
				rest = rest[:j]
			}
		}
		scopes = strings.Split(rest, ";")
	}
	return
}

func scopeFilter(obls []*Obligation, scopes []string) []*Obligation {
	if len(scopes) == 0 {
		return obls
	}
	var out []*Obligation
	for _, o := range obls {
		for _, sc := range scopes {
			if strings.HasPrefix(o.Construct, sc) {
				out = append(out, o)
				break
			}
		}
	}
	return out
}
