package main

import (
	"fmt"
	"go/token"
	"go/types"
	"sort"
	"strings"

	"golang.org/x/tools/go/ssa"
)

// ---------------------------------------------------------------------------------------------
// TAG — variant tag typestate: every v.As<X>() (an unchecked type assertion on the payload) must
// be reached only when the tag of v is known to be X.
// ---------------------------------------------------------------------------------------------

// accessorTag maps the asserting accessors to the tag they require.
var accessorTag = map[string]string{
	"AsInteger": "Integer", "AsLong": "Long", "AsBoolean": "Boolean", "AsFloat": "Float", "AsDouble": "Double",
	"AsString": "String", "AsDateTime": "DateTime", "AsTimeSpan": "TimeSpan",
}

// comparison-like operations return a Boolean or a Null variant (verified by OPS.cell / OPS.null)
var opsBooleanOrNull = map[string]bool{"Equal": true, "NotEqual": true, "More": true, "Less": true, "MoreEqual": true, "LessEqual": true, "In": true}

type tagFact struct {
	tags []string // possible tags; nil with top=true means unknown
	top  bool
	why  string
}

func (f tagFact) String() string {
	if f.top {
		return "unknown (" + f.why + ")"
	}
	return "{" + strings.Join(f.tags, ",") + "} by " + f.why
}

func unionTags(a, b tagFact) tagFact {
	if a.top {
		return a
	}
	if b.top {
		return b
	}
	seen := map[string]bool{}
	var out []string
	for _, t := range append(append([]string{}, a.tags...), b.tags...) {
		if !seen[t] {
			seen[t] = true
			out = append(out, t)
		}
	}
	sort.Strings(out)
	why := a.why
	if b.why != a.why {
		why = a.why + " | " + b.why
	}
	return tagFact{tags: out, why: why}
}

type tagEngine struct {
	c       *Ctx
	names   map[int64]string
	callers map[*ssa.Function][]ssa.CallInstruction
	busy    map[string]bool
}

var tagEngineMemo *tagEngine

func (c *Ctx) tagEngine() *tagEngine {
	if tagEngineMemo != nil {
		return tagEngineMemo
	}
	e := &tagEngine{c: c, names: c.variantTypeNames(), callers: map[*ssa.Function][]ssa.CallInstruction{}, busy: map[string]bool{}}
	for _, fn := range c.AllLibFuncs() {
		for _, ci := range allCalls(fn) {
			if g := ci.Common().StaticCallee(); g != nil && c.InModule(g) {
				e.callers[g] = append(e.callers[g], ci)
			}
		}
	}
	tagEngineMemo = e
	return e
}

// guardTags: tags implied for v by the branch conditions dominating `at`.
func (e *tagEngine) guardTags(v ssa.Value, at ssa.Instruction, gs []guard) (tagFact, bool) {
	c := e.c
	// equality guards and negative knowledge
	for _, g := range gs {
		cond, truth := g.atom()
		recv, k, op, ok := c.typeTestConst(cond, pkgVariants, "Variant")
		if !ok || !c.sameValue(recv, v) {
			continue
		}
		if (op == token.EQL) == truth {
			return tagFact{tags: []string{e.names[k]}, why: "guard Type()==" + e.names[k]}, true
		}
	}
	// OR-entry (case A, B:) on the dominator chain
	for d := at.Block(); d != nil; d = d.Idom() {
		ks, recvs, ok := c.orEntry(d, pkgVariants, "Variant")
		if !ok {
			continue
		}
		all := true
		for _, r := range recvs {
			if !c.sameValue(r, v) {
				all = false
			}
		}
		if !all {
			continue
		}
		var ts []string
		for _, k := range ks {
			ts = append(ts, e.names[k])
		}
		sort.Strings(ts)
		return tagFact{tags: ts, why: "case " + strings.Join(ts, ",")}, true
	}
	return tagFact{}, false
}

// errNilAt: the error companion of tuple call `call` is known nil at `at`.
func errNilAt(call ssa.Value, gs []guard) bool {
	var errVal ssa.Value
	if refs := call.Referrers(); refs != nil {
		for _, r := range *refs {
			if ex, ok := r.(*ssa.Extract); ok && ex.Index == 1 {
				errVal = ex
			}
		}
	}
	if errVal == nil {
		return false
	}
	for _, g := range gs {
		cond, truth := g.atom()
		bo, ok := cond.(*ssa.BinOp)
		if !ok || bo.X != errVal || !isNilConst(bo.Y) {
			continue
		}
		if (bo.Op == token.EQL) == truth {
			return true
		}
	}
	return false
}

func (e *tagEngine) tagOf(v ssa.Value, at ssa.Instruction, depth int) tagFact {
	return e.tagOfG(v, at, guardsAt(at.Block()), depth)
}

func (e *tagEngine) tagOfG(v ssa.Value, at ssa.Instruction, gs []guard, depth int) tagFact {
	c := e.c
	if depth == 0 {
		return tagFact{top: true, why: "depth"}
	}
	if f, ok := e.guardTags(v, at, gs); ok {
		return f
	}
	switch x := v.(type) {
	case *ssa.Extract:
		call, ok := x.Tuple.(*ssa.Call)
		if !ok || x.Index != 0 {
			return tagFact{top: true, why: "tuple"}
		}
		f := calleeObj(call.Common())
		if f == nil {
			return tagFact{top: true, why: "dynamic call"}
		}
		if f.Name() == "Convert" && (c.relPkg(f.Pkg()) == pkgVariants) {
			if !errNilAt(call, gs) {
				return tagFact{top: true, why: "Convert result used without err == nil"}
			}
			args := callArgs(call.Common())
			t := args[1]
			if k, ok := constInt(t); ok {
				if e.names[k] == "Object" {
					return tagFact{top: true, why: "Convert(_, Object) returns its argument unchanged"}
				}
				return tagFact{tags: []string{e.names[k]}, why: "Convert(_, " + e.names[k] + ") post-condition (CONV.tag)"}
			}
			if tc, ok := stripConv(t).(*ssa.Call); ok {
				if _, isT := c.callTo(tc, pkgVariants, "Variant", "Type"); isT {
					w := callRecv(tc.Common())
					wf := e.tagOfG(w, at, gs, depth-1)
					if wf.top {
						return tagFact{top: true, why: "Convert(_, w.Type()) with w " + wf.String()}
					}
					for _, tg := range wf.tags {
						if tg == "Object" {
							return tagFact{top: true, why: "Convert to Object"}
						}
					}
					return tagFact{tags: wf.tags, why: "Convert(_, w.Type()), w " + wf.why}
				}
			}
			return tagFact{top: true, why: "Convert to a non-constant type"}
		}
		if opsBooleanOrNull[f.Name()] && c.relPkg(f.Pkg()) == pkgVariants && (recvNamed(f) == "AbstractVariantOperations" || recvNamed(f) == "IVariantOperations" || recvNamed(f) == "") {
			return tagFact{tags: []string{"Boolean", "Null"}, why: f.Name() + " returns Boolean or Null (OPS.cell/OPS.null)"}
		}
		return tagFact{top: true, why: "result of " + f.Name()}
	case *ssa.Call:
		f := calleeObj(x.Common())
		if f == nil {
			return tagFact{top: true, why: "dynamic call"}
		}
		if c.relPkg(f.Pkg()) == pkgVariants && recvNamed(f) == "" {
			if strings.HasPrefix(f.Name(), "VariantFrom") {
				t := strings.TrimPrefix(f.Name(), "VariantFrom")
				if t != "Object" && t != "Array" {
					return tagFact{tags: []string{t}, why: f.Name()}
				}
			}
			if f.Name() == "EmptyVariant" {
				// fresh variant possibly retagged by a dominating SetAs<X> on the same value
				tag := "Null"
				for _, r := range *x.Referrers() {
					if sc, ok := r.(*ssa.Call); ok && sc != at {
						if g := calleeObj(sc.Common()); g != nil && recvNamed(g) == "Variant" && strings.HasPrefix(g.Name(), "SetAs") && callRecv(sc.Common()) == ssa.Value(x) && instrDominates(sc, at) {
							tag = strings.TrimPrefix(g.Name(), "SetAs")
						}
					}
				}
				return tagFact{tags: []string{tag}, why: "fresh variant"}
			}
		}
		// ExpressionToken.Value(): String when the token type is Variable or Function (INV.exprtoken)
		if _, ok := c.callTo(x, pkgParsers, "ExpressionToken", "Value"); ok {
			tok := callRecv(x.Common())
			if e.tokenTypeIn(tok, at, []string{"Variable", "Function"}) {
				return tagFact{tags: []string{"String"}, why: "token type is Variable/Function ⇒ value is a String (TAG.exprtoken invariant)"}
			}
			return tagFact{top: true, why: "value of a token whose type is not known to be Variable/Function"}
		}
		return tagFact{top: true, why: "result of " + f.Name()}
	case *ssa.UnOp:
		if g, ok := x.X.(*ssa.Global); ok && x.Op == token.MUL && g.Name() == "Empty" && c.relPkg(g.Pkg.Pkg) == pkgVariants {
			return tagFact{tags: []string{"Null"}, why: "variants.Empty (never reassigned: PURE.global)"}
		}
		return tagFact{top: true, why: "load"}
	case *ssa.Phi:
		var acc *tagFact
		for i, ed := range x.Edges {
			if isNilConst(ed) {
				continue
			}
			// facts about an incoming value are those at the end of the predecessor it comes from
			pred := x.Block().Preds[i]
			f := e.tagOfG(ed, pred.Instrs[len(pred.Instrs)-1], guardsOnEdge(pred, x.Block()), depth-1)
			if acc == nil {
				acc = &f
			} else {
				u := unionTags(*acc, f)
				acc = &u
			}
		}
		if acc == nil {
			return tagFact{top: true, why: "empty phi"}
		}
		return *acc
	case *ssa.Parameter:
		fn := x.Parent()
		if fn.Object() != nil && fn.Object().Exported() || fn.Signature.Recv() == nil && fn.Object() != nil && fn.Object().Exported() {
			return tagFact{top: true, why: "parameter of an exported function"}
		}
		key := c.FuncKey(fn) + "/" + x.Name()
		if e.busy[key] {
			return tagFact{top: true, why: "recursive"}
		}
		callers := e.callers[fn]
		if len(callers) == 0 {
			return tagFact{top: true, why: "parameter with no static caller"}
		}
		// address-taken functions (registered calculators) are also called dynamically
		if fn.Referrers() != nil {
			for _, r := range *fn.Referrers() {
				if _, isCall := r.(ssa.CallInstruction); !isCall {
					return tagFact{top: true, why: "function value escapes"}
				}
			}
		}
		idx := -1
		for i, p := range fn.Params {
			if p == x {
				idx = i
			}
		}
		e.busy[key] = true
		defer delete(e.busy, key)
		var acc *tagFact
		for _, ci := range callers {
			arg := ci.Common().Args[idx]
			f := e.tagOf(arg, ci, depth-1)
			if acc == nil {
				acc = &f
			} else {
				u := unionTags(*acc, f)
				acc = &u
			}
		}
		acc.why = "all callers: " + acc.why
		return *acc
	}
	return tagFact{top: true, why: fmt.Sprintf("%T", v)}
}

// tokenTypeIn: guards at `at` establish tok.Type() ∈ names.
func (e *tagEngine) tokenTypeIn(tok ssa.Value, at ssa.Instruction, names []string) bool {
	c := e.c
	want := map[int64]bool{}
	for _, n := range names {
		if k, ok := c.constByName(pkgParsers, n); ok {
			want[k] = true
		}
	}
	for _, g := range guardsAt(at.Block()) {
		cond, truth := g.atom()
		recv, k, op, ok := c.typeTestConst(cond, pkgParsers, "ExpressionToken")
		if ok && c.sameValue(recv, tok) && (op == token.EQL) == truth && want[k] {
			return true
		}
	}
	for d := at.Block(); d != nil; d = d.Idom() {
		ks, recvs, ok := c.orEntry(d, pkgParsers, "ExpressionToken")
		if !ok {
			continue
		}
		all := true
		for i, r := range recvs {
			if !c.sameValue(r, tok) || !want[ks[i]] {
				all = false
			}
		}
		if all {
			return true
		}
	}
	return false
}

func init() {
	register(&Rule{ID: "TAG.access", Floor: 250,
		Doc: "every asserting accessor call v.As<X>() is reached only with tag(v) = X, established by a dominating Type() test, a successful Convert to X (post-condition verified by CONV.tag), a constructor, the Variable/Function-token invariant, or — for unexported helpers — at every call site",
		Run: ruleTagAccess})
	register(&Rule{ID: "TAG.exprtoken", Floor: 3,
		Doc: "invariant used by TAG.access: an ExpressionToken whose type is Variable or Function always carries a String value (checked at every NewExpressionToken call by pairing the type and value that flow in together)",
		Run: ruleTagExprToken})
	register(&Rule{ID: "PANIC.assert", Floor: 4,
		Doc: "type assertions without comma-ok outside the As<X> accessors are dominated by the tag test that OWN.tagtype makes sufficient (typ == Array ⇒ payload is []*Variant)",
		Run: rulePanicAssert})
}

func ruleTagAccess(c *Ctx) []*Obligation {
	o := newObl("TAG.access")
	e := c.tagEngine()
	for _, fn := range c.AllLibFuncs() {
		cnt := map[string]int{}
		ex := c.newExpr(fn)
		for _, ci := range allCalls(fn) {
			f := calleeObj(ci.Common())
			if f == nil || recvNamed(f) != "Variant" || c.relPkg(f.Pkg()) != pkgVariants {
				continue
			}
			want, ok := accessorTag[f.Name()]
			if !ok {
				continue
			}
			v := callRecv(ci.Common())
			desc := ex.str(v)
			if len(desc) > 60 {
				desc = desc[:60] + "…"
			}
			base := fmt.Sprintf("%s#%s(%s)", c.FuncKey(fn), f.Name(), desc)
			cnt[base]++
			key := fmt.Sprintf("%s#%d", base, cnt[base])
			fact := e.tagOf(v, ci, 8)
			if !fact.top && len(fact.tags) == 1 && fact.tags[0] == want {
				o.ok(key, c.Pos(ci.Pos()), "tag is "+fact.String())
				continue
			}
			if why, ok := c.tagReviewed(fn, ci, f.Name()); ok {
				o.reviewed(key, c.Pos(ci.Pos()), why)
				continue
			}
			o.bad(key, c.Pos(ci.Pos()), fmt.Sprintf("%s() asserts a %s payload but the tag of %s is %s: the assertion panics for other tags", f.Name(), want, desc, fact.String()))
		}
	}
	return o.list
}

// tagReviewed: reviewed instances (one construct each) whose justification is another rule's invariant,
// re-verified on every run.
func (c *Ctx) tagReviewed(fn *ssa.Function, ci ssa.CallInstruction, accessor string) (string, bool) {
	// evaluateFunction: the first Pop is the argument-count constant the parser emits right before
	// the Function token (GRAM.arity count-then-function + count-increments) — an Integer constant.
	if c.FuncKey(fn) == pkgCalc+".(*ExpressionCalculator).evaluateFunction" && accessor == "AsInteger" {
		if pc, ok := callRecv(ci.Common()).(*ssa.Call); ok {
			if _, isPop := c.callTo(pc, pkgCalc, "CalculationStack", "Pop"); isPop {
				res := runRule(c, "GRAM.arity")
				okAll := res.broken == ""
				found := 0
				for _, ob := range res.obls {
					if strings.Contains(ob.Construct, "#call#") && !strings.Contains(ob.Construct, "#call#rebuild-in-order") {
						found++
						if ob.Status != Discharged {
							okAll = false
						}
					}
				}
				if okAll && found >= 3 {
					return "reviewed: the popped value is the Integer argument count emitted by the parser directly before the Function token (re-verified: GRAM.arity call-compilation obligations hold)", true
				}
			}
		}
	}
	return "", false
}

// ruleTagExprToken verifies the container invariant at every NewExpressionToken call (and at the
// callers of wrappers that pass their own parameters through).
func ruleTagExprToken(c *Ctx) []*Obligation {
	o := newObl("TAG.exprtoken")
	e := c.tagEngine()
	pm := c.buildParserModel()
	vk, _ := c.constByName(pkgParsers, "Variable")
	fk, _ := c.constByName(pkgParsers, "Function")
	type site struct {
		fn       *ssa.Function
		at       ssa.CallInstruction
		typ, val ssa.Value
	}
	var sites []site
	var collect func(fn *ssa.Function, ci ssa.CallInstruction, typ, val ssa.Value, depth int)
	collect = func(fn *ssa.Function, ci ssa.CallInstruction, typ, val ssa.Value, depth int) {
		tp, tIsP := typ.(*ssa.Parameter)
		vp, vIsP := val.(*ssa.Parameter)
		if tIsP && vIsP && depth > 0 && len(e.callers[fn]) > 0 {
			ti, vi := -1, -1
			for i, p := range fn.Params {
				if p == tp {
					ti = i
				}
				if p == vp {
					vi = i
				}
			}
			for _, caller := range e.callers[fn] {
				collect(caller.Parent(), caller, caller.Common().Args[ti], caller.Common().Args[vi], depth-1)
			}
			return
		}
		sites = append(sites, site{fn, ci, typ, val})
	}
	for _, fn := range c.AllLibFuncs() {
		for _, ci := range allCalls(fn) {
			if cc, ok := c.callTo(ci, pkgParsers, "", "NewExpressionToken"); ok {
				collect(fn, ci, cc.Args[0], cc.Args[1], 2)
			}
		}
	}
	cnt := map[string]int{}
	for _, s := range sites {
		base := c.FuncKey(s.fn) + "#token-construction"
		cnt[base]++
		key := fmt.Sprintf("%s#%d", base, cnt[base])
		type pair struct {
			t, v ssa.Value
			at   ssa.Instruction
		}
		var pairs []pair
		tp, tIsPhi := s.typ.(*ssa.Phi)
		vp, vIsPhi := s.val.(*ssa.Phi)
		switch {
		case tIsPhi && vIsPhi && tp.Block() == vp.Block():
			for i := range tp.Edges {
				pred := tp.Block().Preds[i]
				pairs = append(pairs, pair{tp.Edges[i], vp.Edges[i], pred.Instrs[len(pred.Instrs)-1]})
			}
		default:
			pairs = append(pairs, pair{s.typ, s.val, s.at})
		}
		bad := ""
		for _, p := range pairs {
			// can the type be Variable or Function?
			mayBeName := false
			for _, tl := range c.resultLeaves(p.t, 2) {
				if k, isK := constInt(tl); isK {
					if k == vk || k == fk {
						mayBeName = true
					}
					continue
				}
				if tc, isC := stripConv(tl).(*ssa.Call); isC {
					if _, isT := c.callTo(tc, pkgParsers, "ExpressionToken", "Type"); isT {
						tok := callRecv(tc.Common())
						// the token's own value travels with its own type: inductive
						if vc, isV := p.v.(*ssa.Call); isV {
							if _, isVal := c.callTo(vc, pkgParsers, "ExpressionToken", "Value"); isVal && c.sameValue(callRecv(vc.Common()), tok) {
								continue
							}
						}
						// otherwise the guards must exclude Variable/Function
						if ks, ok := e.tokenTypeSet(tok, p.at); ok {
							for _, k := range ks {
								if k == vk || k == fk {
									mayBeName = true
								}
							}
							continue
						}
						mayBeName = true
						continue
					}
				}
				if ld, isL := stripConv(tl).(*ssa.UnOp); isL && ld.Op == token.MUL {
					if ia, isI := ld.X.(*ssa.IndexAddr); isI {
						if gl, isG := ia.X.(*ssa.UnOp); isG {
							if g, ok := gl.X.(*ssa.Global); ok && g.Name() == "operatorTypes" {
								continue // operator table: GRAM.lex pins its contents to operator types only
							}
						}
					}
				}
				mayBeName = true
			}
			if !mayBeName {
				continue
			}
			f := e.tagOf(p.v, p.at, 8)
			if f.top || len(f.tags) != 1 || f.tags[0] != "String" {
				bad = fmt.Sprintf("a token that may have type Variable/Function is built with a value whose tag is %s", f.String())
			}
		}
		_ = pm
		if bad != "" {
			o.bad(key, c.Pos(s.at.Pos()), bad)
		} else {
			o.ok(key, c.Pos(s.at.Pos()), fmt.Sprintf("%d (type,value) pair(s): Variable/Function only with String values", len(pairs)))
		}
	}
	return o.list
}

// tokenTypeSet: the constants tok.Type() is known to be among at `at` (from matched type tests).
func (e *tagEngine) tokenTypeSet(tok ssa.Value, at ssa.Instruction) ([]int64, bool) {
	c := e.c
	// a token (or phi of tokens) built right here with constant types
	var built []int64
	allBuilt := true
	for _, leaf := range phiLeaves(tok) {
		if isNilConst(leaf) {
			continue
		}
		lc, ok := leaf.(*ssa.Call)
		if !ok {
			allBuilt = false
			break
		}
		cc, isN := c.callTo(lc, pkgParsers, "", "NewExpressionToken")
		if !isN {
			allBuilt = false
			break
		}
		k, isK := constInt(cc.Args[0])
		if !isK {
			allBuilt = false
			break
		}
		built = append(built, k)
	}
	if allBuilt && len(built) > 0 {
		return built, true
	}
	for _, g := range guardsAt(at.Block()) {
		cond, truth := g.atom()
		recv, k, op, ok := c.typeTestConst(cond, pkgParsers, "ExpressionToken")
		if ok && c.sameValue(recv, tok) && (op == token.EQL) == truth {
			return []int64{k}, true
		}
	}
	for d := at.Block(); d != nil; d = d.Idom() {
		ks, recvs, ok := c.orEntry(d, pkgParsers, "ExpressionToken")
		if !ok {
			continue
		}
		all := true
		for _, r := range recvs {
			if !c.sameValue(r, tok) {
				all = false
			}
		}
		if all {
			return ks, true
		}
	}
	return nil, false
}

func rulePanicAssert(c *Ctx) []*Obligation {
	o := newObl("PANIC.assert")
	for _, fn := range c.AllLibFuncs() {
		n := 0
		for _, b := range fn.Blocks {
			for _, in := range b.Instrs {
				ta, ok := in.(*ssa.TypeAssert)
				if !ok || ta.CommaOk {
					continue
				}
				if types.Identical(ta.AssertedType, ta.X.Type()) {
					// the non-nil check go/ssa emits for a method value x.M of an interface x: it fails
					// exactly when calling x.M() would (nil interface), which is not an assertion on data
					continue
				}
				n++
				key := fmt.Sprintf("%s#assert<%s>#%d", c.FuncKey(fn), shortType(ta.AssertedType), n)
				if _, isAcc := accessorTag[fn.Name()]; isAcc && fn.Signature.Recv() != nil {
					o.triv(key, c.Pos(ta.Pos()), "asserting accessor: obligation is at every caller (TAG.access)")
					continue
				}
				// c.value.([]*Variant) under c.typ == Array
				if _, isSlice := ta.AssertedType.Underlying().(*types.Slice); isSlice {
					okGuard := false
					for _, g := range guardsAt(b) {
						cond, truth := g.atom()
						bo, isB := cond.(*ssa.BinOp)
						if !isB {
							continue
						}
						k, isK := constInt(bo.Y)
						if isK && c.variantTypeNames()[k] == "Array" && (bo.Op == token.EQL) == truth {
							if ld, isL := bo.X.(*ssa.UnOp); isL {
								if fa, isF := ld.X.(*ssa.FieldAddr); isF && fieldName(fa.X.Type(), fa.Field) == "typ" {
									okGuard = true
								}
							}
						}
					}
					if okGuard {
						o.ok(key, c.Pos(ta.Pos()), "dominated by typ == Array; OWN.tagtype guarantees an Array variant holds []*Variant")
						continue
					}
				}
				o.bad(key, c.Pos(ta.Pos()), "unchecked type assertion with no dominating tag test")
			}
		}
	}
	return o.list
}

// resultLeaves expands v through phis and through the returned values of statically called
// single-result module functions (a lookup helper such as findOperatorType), up to the given depth.
func (c *Ctx) resultLeaves(v ssa.Value, depth int) []ssa.Value {
	var out []ssa.Value
	for _, l := range phiLeaves(v) {
		call, ok := stripConv(l).(*ssa.Call)
		if ok && depth > 0 {
			if g := call.Call.StaticCallee(); g != nil && c.InModule(g) && g.Blocks != nil && g.Signature.Results().Len() == 1 && g.Signature.Recv() == nil {
				for _, ret := range returnsOf(g) {
					out = append(out, c.resultLeaves(ret.Results[0], depth-1)...)
				}
				continue
			}
		}
		out = append(out, l)
	}
	return out
}
