package main

import (
	"fmt"
	"go/ast"
	"go/parser"
	"go/types"
	"os"
	"strings"

	"golang.org/x/tools/go/ssa"
	"golang.org/x/tools/go/ssa/ssautil"
)

// ---------------------------------------------------------------------------------------------
// MACH.selftest: the abstract machine evaluates a small built-in program that exercises the language
// features the rules rely on (dynamic dispatch, type assertions, append aliasing within capacity and
// runtime growth, maps, closures, variadics, linked structures, defer/recover with named results,
// strings and runes, integer widths, shifts, switch/fallthrough, array and struct copies) and must
// produce exactly what the compiled program printed when this file was written. A machine that has
// lost part of its semantics makes every check that relies on it undecided instead of silently right.
// ---------------------------------------------------------------------------------------------

const machSelfTestSrc = `package selftest

import (
	"strconv"
	"strings"
)

type myErr struct{ msg string }

func (e *myErr) Error() string { return e.msg }

func itoa(n int) string { return strconv.Itoa(n) }

func sortStrings(xs []string) {
	for i := 1; i < len(xs); i++ {
		for j := i; j > 0 && xs[j] < xs[j-1]; j-- {
			xs[j], xs[j-1] = xs[j-1], xs[j]
		}
	}
}

func b2s(b bool) string {
	if b {
		return "true"
	}
	return "false"
}

type shape interface{ area() int }
type rect struct{ w, h int }
type sq struct{ s int }

func (r *rect) area() int { return r.w * r.h }
func (s sq) area() int    { return s.s * s.s }

type node struct {
	val  int
	next *node
	kids []*node
	tag  map[string]int
}

func safeDiv(a, b int) (res int, err error) {
	defer func() {
		if r := recover(); r != nil {
			err = &myErr{"recovered"}
			res = -1
		}
	}()
	return a / b, nil
}

func apply(f func(int) int, xs ...int) []int {
	out := []int{}
	for _, x := range xs {
		out = append(out, f(x))
	}
	return out
}

var table = []struct {
	name string
	n    int
}{{"a", 1}, {"b", 2}, {"c", 3}}

func Run() string {
	var sb strings.Builder
	// interfaces and dynamic dispatch
	shapes := []shape{&rect{2, 3}, sq{4}}
	total := 0
	for _, s := range shapes {
		total += s.area()
		if r, ok := s.(*rect); ok {
			total += r.w
		}
	}
	sb.WriteString("area=" + itoa(total) + ";")
	// slices: aliasing through append within capacity
	base := make([]int, 2, 8)
	a := append(base, 1)
	b := append(base, 2)
	sb.WriteString("alias=" + itoa(a[2]) + "," + itoa(b[2]) + ";")
	r1 := append([]rune(nil), 'x')
	r2 := append(r1, 'y')
	r3 := append(r1, 'z')
	sb.WriteString("runes=" + string(r2) + "," + string(r3) + ",cap" + itoa(cap(r1)) + ";")
	// maps, closures, variadics
	m := map[string]int{}
	for _, e := range table {
		m[e.name] += e.n * 10
	}
	keys := []string{}
	for k := range m {
		keys = append(keys, k)
	}
	sortStrings(keys)
	k := 3
	sq := apply(func(x int) int { return x*x + k }, 1, 2, 3)
	sb.WriteString("map=" + strings.Join(keys, "") + itoa(m["b"]) + ";sq=" + itoa(sq[0]) + "," + itoa(sq[1]) + "," + itoa(sq[2]) + ";")
	// pointers, linked structure
	n := &node{val: 1, tag: map[string]int{"t": 7}}
	n.next = &node{val: 2}
	n.kids = append(n.kids, n.next, n)
	n.kids[0].val += n.tag["t"]
	sb.WriteString("node=" + itoa(n.next.val) + "," + itoa(len(n.kids)) + "," + itoa(n.kids[1].kids[0].val) + ";")
	// defer / recover / named results
	q, err := safeDiv(7, 0)
	q2, err2 := safeDiv(7, 2)
	sb.WriteString("div=" + itoa(q) + "," + b2s(err != nil) + "," + itoa(q2) + "," + b2s(err2 != nil) + ";")
	// strings and runes
	s := "aжb"
	cnt := 0
	for i, r := range s {
		cnt += i + int(r%7)
	}
	sb.WriteString("str=" + itoa(len(s)) + "," + itoa(cnt) + "," + strings.ToUpper(s[:1]) + "," + string([]rune(s)[1]) + ";")
	// integer widths, shifts, switch
	var u8 uint8 = 250
	u8 += 10
	var i32 int32 = 1 << 30
	i32 *= 4
	x := 0
	switch {
	case u8 < 5:
		x = 1
		fallthrough
	case u8 > 100:
		x += 2
	default:
		x = 9
	}
	sb.WriteString("int=" + itoa(int(u8)) + "," + itoa(int(i32)) + "," + itoa(x) + "," + itoa(-7>>1) + ";")
	// arrays by value, struct copy
	arr := [3]int{1, 2, 3}
	cp := arr
	cp[0] = 9
	st := rect{1, 2}
	st2 := st
	st2.w = 5
	sb.WriteString("copy=" + itoa(arr[0]) + "," + itoa(cp[0]) + "," + itoa(st.w+st2.w) + ";")
	// copy between overlapping slices moves as if through a buffer
	ov := []int{1, 2, 3, 4}
	copy(ov[1:], ov[:3])
	ov2 := []int{1, 2, 3, 4}
	copy(ov2[:3], ov2[1:])
	sb.WriteString("ovl=" + itoa(ov[0]) + itoa(ov[1]) + itoa(ov[2]) + itoa(ov[3]) + "," + itoa(ov2[0]) + itoa(ov2[1]) + itoa(ov2[2]) + itoa(ov2[3]) + ";")
	// a struct assigned as a whole keeps its identity: x = T{f: x.f} reads the old field and clears the rest;
	// a pointer to a field taken before the assignment still points into the variable
	rs := &reset{keep: &rect{2, 5}, n: 7, list: []int{1}}
	pn := &rs.n
	rs.clear()
	*pn += 3
	sb.WriteString("whole=" + itoa(rs.keep.area()) + "," + itoa(rs.n) + "," + itoa(len(rs.list)) + ";")
	return sb.String()
}

type reset struct {
	keep shape
	n    int
	list []int
}

func (r *reset) clear() { *r = reset{keep: r.keep, list: []int{}} }
`

const machSelfTestWant = "area=24;alias=2,2;runes=xz,xz,cap2;map=abc20;sq=4,7,12;node=9,2,9;div=-1,true,3,false;str=4,10,A,ж;int=4,0,3,-4;copy=1,9,6;ovl=1123,2344;whole=10,3,0;"

type loadedImporter struct{ c *Ctx }

func (li loadedImporter) Import(path string) (*types.Package, error) {
	if sp := li.c.Prog.ImportedPackage(path); sp != nil {
		return sp.Pkg, nil
	}
	return nil, fmt.Errorf("package %s is not part of the loaded program", path)
}

var machSelfMemo string
var machSelfDone bool

// machSelfTest returns "" when the machine reproduces the reference output, else what went wrong.
func (c *Ctx) machSelfTest() string {
	if machSelfDone {
		return machSelfMemo
	}
	machSelfDone = true
	f, err := parser.ParseFile(c.Fset, "mach_selftest_prog.go", machSelfTestSrc, 0)
	if err != nil {
		machSelfMemo = "self-test program does not parse: " + err.Error()
		return machSelfMemo
	}
	pkg := types.NewPackage("selftest", "selftest")
	sp, _, err := ssautil.BuildPackage(&types.Config{Importer: loadedImporter{c}}, c.Fset, pkg, []*ast.File{f}, ssa.InstantiateGenerics)
	if err != nil {
		machSelfMemo = "self-test program does not build: " + err.Error()
		return machSelfMemo
	}
	m := newMach(c)
	m.prog = sp.Prog
	m.execExternal = func(fn *ssa.Function) bool { return fn.Pkg == sp }
	m.ownPkgs = map[*ssa.Package]bool{sp: true}
	run := sp.Func("Run")
	if run == nil {
		machSelfMemo = "self-test program has no Run"
		return machSelfMemo
	}
	r, out := m.Call(run)
	if out.kind != "ok" {
		machSelfMemo = "the machine cannot evaluate its self-test program: " + out.kind + ": " + out.why
		return machSelfMemo
	}
	if got := catRender(r); got != machSelfTestWant {
		machSelfMemo = fmt.Sprintf("the machine evaluates its self-test program to %q; the compiled program prints %q", got, machSelfTestWant)
	}
	return machSelfMemo
}

func init() {
	register(&Rule{ID: "MACH.selftest", Floor: 1,
		Doc: "the abstract machine evaluates a built-in program covering the language features the rules rely on and must reproduce the output of the compiled program",
		Run: func(c *Ctx) []*Obligation {
			o := newObl("MACH.selftest")
			if why := c.machSelfTest(); why != "" {
				o.undecided("checker.mach#selftest", "-", why)
			} else {
				o.ok("checker.mach#selftest", "-", "the self-test program evaluates to the reference output")
			}
			return o.list
		}})
}

// machrun <pkg>: evaluate every func Run*() string of a package of the loaded tree (REPO; e.g. a scratch
// copy of /repo with a probe package added) on the machine. An aid for finding what the machine's models
// do not cover; decides nothing.
func init() {
	extraCmds["machrun"] = func(args []string) int {
		repo := "/repo"
		if v := os.Getenv("REPO"); v != "" {
			repo = v
		}
		c, err := Load(repo, "quick")
		if err != nil {
			fmt.Fprintln(os.Stderr, err)
			return 2
		}
		sp := c.SSA[args[0]]
		if sp == nil {
			fmt.Fprintln(os.Stderr, "no package", args[0])
			return 2
		}
		for _, mem := range sp.Members {
			fn, ok := mem.(*ssa.Function)
			if !ok || !strings.HasPrefix(fn.Name(), "Run") {
				continue
			}
			m := newMach(c)
			m.maxSteps = 5000000
			r, out := m.Call(fn)
			if out.kind != "ok" {
				fmt.Printf("%s: %s: %s\n", fn.Name(), out.kind, out.why)
				continue
			}
			fmt.Printf("%s: %s\n", fn.Name(), catRender(r))
		}
		return 0
	}
}
