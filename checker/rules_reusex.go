package main

import (
	"fmt"
	"go/types"
	"sort"
	"strconv"
	"strings"
	"sync"

	"golang.org/x/tools/go/ssa"
)

// ---------------------------------------------------------------------------------------------
// REUSE.instances (C05): a reused parser, calculator or template gives what a fresh instance gives.
// Every ordered pair of a pool (well-formed and malformed inputs) is processed by one instance on
// the abstract machine; the second result must equal the result of a freshly constructed instance.
// ---------------------------------------------------------------------------------------------

var reuseMemo map[string]*simpleVerdict
var reuseMu sync.Mutex

func (c *Ctx) reuseRun() map[string]*simpleVerdict {
	reuseMu.Lock()
	defer reuseMu.Unlock()
	if reuseMemo != nil {
		return reuseMemo
	}
	res := map[string]*simpleVerdict{"parser": {}, "calculator": {}, "template": {}, "calculator-real": {}, "calculator-histories": {}}
	note := func(k, bad, undec string) {
		v := res[k]
		v.runs++
		if bad != "" && v.bad == "" {
			v.bad = bad
		}
		if undec != "" && v.undec == "" {
			v.undec = undec
		}
	}
	var wg sync.WaitGroup
	var mu sync.Mutex
	// ---- parser: tokens -> (error code | program, variable names) --------------------------------
	wg.Add(1)
	go func() {
		defer wg.Done()
		pool := []string{"a + b * c", "f ( a , b )", "a +", "( a", "a b", "x IS NOT NULL", "a [ 1 ]", "- a", "f ( g ( a ) , b ) + c", "a ?", "", "1"}
		render := func(h *gxHarness, s string) string {
			r := h.parse(lexemes(s))
			switch r.kind {
			case "accept":
				vn, _ := callM(c, h.m, resultType(c.MustFunc(pkgParsers, "", "NewExpressionParser")), "VariableNames", h.parser)
				names, _ := stringsOfSlice(vn)
				return "program [" + strings.Join(r.rpn, " ") + "] variables " + fmt.Sprint(names)
			case "reject":
				return "error " + r.code + ", then " + c.reuseObservable(h.m, resultType(c.MustFunc(pkgParsers, "", "NewExpressionParser")), h.parser)
			}
			return r.kind + ": " + r.why
		}
		fresh := map[string]string{}
		for _, s := range pool {
			fresh[s] = render(c.newGxHarness(), s)
		}
		h := c.newGxHarness()
		for _, s1 := range pool {
			for _, s2 := range pool {
				render(h, s1)
				got := render(h, s2)
				mu.Lock()
				switch {
				case strings.HasPrefix(got, "opaque"):
					note("parser", "", got)
				case got != fresh[s2]:
					note("parser", fmt.Sprintf("a parser that parsed ‹%s› before gives %s for ‹%s›; a fresh parser gives %s", s1, got, s2, fresh[s2]), "")
				default:
					note("parser", "", "")
				}
				mu.Unlock()
			}
		}
	}()
	// ---- parser through ParseString (text entry point): every ordered pair, the same text twice included ------
	wg.Add(1)
	go func() {
		defer wg.Done()
		pool := []string{"a + b * c", "f(a, b)", "a +", "(a", "a b", "x IS NOT NULL", "a[1]", "2 + ", "max(1, 2", "1"}
		ctor := c.MustFunc(pkgParsers, "", "NewExpressionParser")
		pt := resultType(ctor)
		render := func(m *mach, parser mv, s string) string {
			m.steps = 0
			r, out := callM(c, m, pt, "ParseString", parser, s)
			if out.kind != "ok" {
				return out.kind + ": " + out.why
			}
			// what the instance shows through its accessors is compared after a rejected text as well: a fresh
			// instance given the malformed text is the reference for everything observable afterwards
			if _, isNil := r.(mNilT); !isNil {
				return "error " + errorCode(r) + ", then " + c.reuseObservable(m, pt, parser)
			}
			return "no error, then " + c.reuseObservable(m, pt, parser)
		}
		fresh := map[string]string{}
		for _, s := range pool {
			m := newMach(c)
			m.maxSteps = 3000000
			p, out := m.Call(ctor)
			if out.kind != "ok" {
				mu.Lock()
				note("parser", "", "NewExpressionParser: "+out.why)
				mu.Unlock()
				return
			}
			fresh[s] = render(m, p, s)
		}
		m := newMach(c)
		m.maxSteps = 3000000
		p, _ := m.Call(ctor)
		for _, s1 := range pool {
			for _, s2 := range pool {
				render(m, p, s1)
				got := render(m, p, s2)
				mu.Lock()
				switch {
				case strings.HasPrefix(got, "opaque"):
					note("parser", "", got)
				case got != fresh[s2]:
					note("parser", fmt.Sprintf("a parser that was given the text %q before answers %q with %s; a fresh parser answers %s", s1, s2, got, fresh[s2]), "")
				default:
					note("parser", "", "")
				}
				mu.Unlock()
			}
		}
	}()
	// ---- calculator: expression -> operations trace + result, with auto-variables ------------------
	wg.Add(1)
	go func() {
		defer wg.Done()
		pool := []string{"a + b * c", "f ( a , b )", "NOT a", "a IS NULL", "a [ b ]", "g ( )", "a - b - c", "a NOT IN b"}
		render := func(h *geHarness, s string, failAt int) string {
			r := h.evaluate(lexemes(s), failAt, true)
			return r.kind + " [" + strings.Join(r.trace, "; ") + "] → " + r.result + r.why
		}
		fresh := map[string]string{}
		for _, s := range pool {
			fresh[s] = render(c.newGeHarness(), s, 0)
		}
		h := c.newGeHarness()
		for _, s1 := range pool {
			for _, s2 := range pool {
				for _, fail := range []int{0, 1} {
					render(h, s1, fail)
					got := render(h, s2, 0)
					// result names r1.. restart per evaluation; operand identities are per name
					mu.Lock()
					switch {
					case strings.HasPrefix(got, "opaque"):
						note("calculator", "", got)
					case got != fresh[s2]:
						what := "evaluated"
						if fail > 0 {
							what = "failed while evaluating"
						}
						note("calculator", fmt.Sprintf("a calculator that %s ‹%s› before gives %s for ‹%s›; a fresh calculator gives %s", what, s1, got, s2, fresh[s2]), "")
					default:
						note("calculator", "", "")
					}
					mu.Unlock()
				}
			}
		}
	}()
	// ---- calculator with its own functions and operations: values, repeated and after other expressions ----
	for part := 0; part < reuseRealParts; part++ {
		part := part
		wg.Add(1)
		go func() {
			defer wg.Done()
			c.reuseRealCalculator(part, func(bad, undec string) {
				mu.Lock()
				note("calculator-real", bad, undec)
				mu.Unlock()
			})
		}()
	}
	// ---- calculator as shipped: histories of expressions and assignments by the caller ---------------
	for part := 0; part < reuseHistoryParts; part++ {
		part := part
		wg.Add(1)
		go func() {
			defer wg.Done()
			c.reuseHistories(part, func(bad, undec string) {
				mu.Lock()
				note("calculator-histories", bad, undec)
				mu.Unlock()
			})
		}()
	}
	// ---- template: template text + variables -> rendering / error ---------------------------------
	wg.Add(1)
	go func() {
		defer wg.Done()
		pool := []string{"x{{a}}y", "{{#a}}in{{/a}}out", "{{^b}}n{{/b}}", "{{#a}}", "{{a", "plain", "{{{a}}}{{!c}}", "{{#if a}}{{#b}}1{{/b}}{{/if}}", "{{/a}}", ""}
		ctor := c.MustFunc("mustache", "", "NewMustacheTemplate")
		tt := resultType(ctor)
		vars := map[string]string{"a": "A/\"", "b": ""}
		mkMap := func() *mMap {
			mm := &mMap{k: map[string]mv{}, v: map[string]mv{}}
			var keys []string
			for k := range vars {
				keys = append(keys, k)
			}
			sort.Strings(keys)
			for _, k := range keys {
				ks, _ := mapKey(k)
				mm.keys = append(mm.keys, ks)
				mm.k[ks], mm.v[ks] = k, vars[k]
			}
			return mm
		}
		render := func(m *mach, tm mv, s string) string {
			m.steps = 0
			e, out := callM(c, m, tt, "SetTemplate", tm, s)
			if out.kind != "ok" {
				return out.kind + ": " + out.why
			}
			if _, isNil := e.(mNilT); !isNil {
				return "error " + errorCode(e)
			}
			r, out := callM(c, m, tt, "EvaluateWithVariables", tm, mkMap())
			tp, ok := r.(mTuple)
			if out.kind != "ok" || !ok {
				return out.kind + ": " + out.why
			}
			if _, isNil := tp[1].(mNilT); !isNil {
				return "render error " + errorCode(tp[1])
			}
			vn := ""
			if dv, o := callM(c, m, tt, "DefaultVariables", tm); o.kind == "ok" {
				if dm, ok := dv.(*mMap); ok && dm != nil {
					var ks []string
					for _, k := range dm.keys {
						s, _ := dm.k[k].(string)
						ks = append(ks, strings.ToLower(s))
					}
					sort.Strings(ks)
					vn = " default variables " + fmt.Sprint(ks)
				}
			}
			return "renders " + catRender(tp[0]) + vn
		}
		fresh := map[string]string{}
		for _, s := range pool {
			m := newMach(c)
			m.maxSteps = 2000000
			tm, out := m.Call(ctor)
			if out.kind != "ok" {
				mu.Lock()
				note("template", "", "NewMustacheTemplate: "+out.why)
				mu.Unlock()
				return
			}
			fresh[s] = render(m, tm, s)
		}
		m := newMach(c)
		m.maxSteps = 2000000
		shared, _ := m.Call(ctor)
		for _, s1 := range pool {
			for _, s2 := range pool {
				// (a) the same instance, nothing in between: the rendering (default variables accumulate by
				// design - entries already there are kept - and are not compared)
				strip := func(r string) string {
					if i := strings.Index(r, " default variables "); i >= 0 {
						return r[:i]
					}
					return r
				}
				render(m, shared, s1)
				got := render(m, shared, s2)
				mu.Lock()
				switch {
				case strings.HasPrefix(got, "opaque"):
					note("template", "", got)
				case strip(got) != strip(fresh[s2]):
					note("template", fmt.Sprintf("a template instance that held %q before gives %s for %q; a fresh instance gives %s", s1, strip(got), s2, strip(fresh[s2])), "")
				default:
					note("template", "", "")
				}
				mu.Unlock()
				// (b) after Clear everything equals a fresh instance
				tm, _ := m.Call(ctor)
				render(m, tm, s1)
				callM(c, m, tt, "Clear", tm)
				got = render(m, tm, s2)
				mu.Lock()
				switch {
				case strings.HasPrefix(got, "opaque"):
					note("template", "", got)
				case got != fresh[s2]:
					note("template", fmt.Sprintf("a template instance that held %q before (and was cleared) gives %s for %q; a fresh instance gives %s", s1, got, s2, fresh[s2]), "")
				default:
					note("template", "", "")
				}
				mu.Unlock()
			}
		}
	}()
	wg.Wait()
	reuseMemo = res
	return res
}

// reuseObservable: what a parser or calculator shows through its exported accessors - the expression
// text, the number of original tokens, the types of the initial tokens and of the compiled program, the
// variable names (where the type has the accessor).
func (c *Ctx) reuseObservable(m *mach, t types.Type, recv mv) string {
	etNames := c.constNames(pkgParsers, "")
	tokType := c.MustFunc(pkgParsers, "ExpressionToken", "Type")
	var parts []string
	for _, acc := range []string{"Expression", "OriginalTokens", "InitialTokens", "ResultTokens", "VariableNames"} {
		if c.lookupMethod(t, acc) == nil {
			continue
		}
		v, out := callM(c, m, t, acc, recv)
		if out.kind != "ok" {
			return out.kind + ": " + acc + ": " + out.why
		}
		switch acc {
		case "Expression":
			s, ok := v.(string)
			if !ok {
				return "opaque: Expression() is undetermined"
			}
			parts = append(parts, fmt.Sprintf("Expression() %q", s))
		case "OriginalTokens":
			n := 0
			if sl, ok := v.(mSlice); ok {
				n = len(sl.arr)
			}
			parts = append(parts, fmt.Sprintf("%d original tokens", n))
		case "VariableNames":
			names, _ := stringsOfSlice(v)
			parts = append(parts, "VariableNames() "+fmt.Sprint(names))
		default:
			var ts []string
			if sl, ok := v.(mSlice); ok {
				for _, tk := range sl.arr {
					ty, o := m.Call(tokType, tk)
					tn, ok := ty.(int64)
					if o.kind != "ok" || !ok {
						return "opaque: a token of " + acc + "() has an undetermined type"
					}
					ts = append(ts, etNames[tn])
				}
			}
			parts = append(parts, acc+"() ["+strings.Join(ts, " ")+"]")
		}
	}
	return strings.Join(parts, ", ")
}

// ---- the calculator as shipped: default functions, type-unsafe operations, default variables ----------
//
// C05 compares values "under the same variable values": one calculator holds the default variables
// x, y (Integer), d (Double) and s (String); an expression is set once and evaluated three times, then
// expressions reading the same variables are set and evaluated on the same instance. Every answer must
// equal the answer of a freshly constructed calculator holding the original values. The expressions:
// every default function of the statement with its first arguments counts, the first argument a
// numeric or string literal, a variable, or a computed value, the others literals, variables or
// computed values; every binary and unary operator over literals and variables.

const reuseRealParts = 3

type reuseVar struct {
	name, typ string
	val       mv
}

var reuseVars = []reuseVar{{"x", "Integer", int64(2)}, {"y", "Integer", int64(3)}, {"d", "Double", float64(0.5)}, {"s", "String", "ab"}}

func (c *Ctx) reuseRealCalculator(part int, note func(bad, undec string)) {
	m := newMach(c)
	m.maxSteps = 3000000
	m.external = decimalNumerals
	cctor := c.MustFunc(pkgCalc, "", "NewExpressionCalculator")
	ct := resultType(cctor)
	newVar := c.MustFunc("calculator/variables", "", "NewVariable")
	vtNames := c.variantTypeNames()
	var deep func(v mv, depth int) string
	deep = func(v mv, depth int) string {
		if p, ok := v.(*mv); !ok || p == nil {
			return "nil"
		}
		t, out := m.Call(c.MustFunc(pkgVariants, "Variant", "Type"), v)
		k, _ := t.(int64)
		if out.kind != "ok" {
			return "?" + out.why
		}
		if vtNames[k] == "Array" && depth < 3 {
			a, _ := m.Call(c.MustFunc(pkgVariants, "Variant", "AsArray"), v)
			var ps []string
			if sl, ok := a.(mSlice); ok {
				for _, e := range sl.arr {
					ps = append(ps, deep(e, depth+1))
				}
			}
			return "Array [" + strings.Join(ps, ", ") + "]"
		}
		pl, _ := m.Call(c.MustFunc(pkgVariants, "Variant", "AsObject"), v)
		return vtNames[k] + " " + mRender(pl)
	}
	fresh := func() (mv, string) {
		calc, out := m.Call(cctor)
		if out.kind != "ok" {
			return nil, "NewExpressionCalculator: " + out.why
		}
		dv, out := callM(c, m, ct, "DefaultVariables", calc)
		dvi, ok := dv.(mIface)
		if out.kind != "ok" || !ok {
			return nil, "DefaultVariables: " + out.why
		}
		for _, rv := range reuseVars {
			val, o1 := m.Call(c.MustFunc(pkgVariants, "", "VariantFrom"+rv.typ), rv.val)
			vr, o2 := m.Call(newVar, rv.name, val)
			_, o3 := callM(c, m, dvi.t, "Add", dvi.v, mIface{t: resultType(newVar), v: vr})
			if o1.kind != "ok" || o2.kind != "ok" || o3.kind != "ok" {
				return nil, "default variables: " + o1.why + o2.why + o3.why
			}
		}
		return calc, ""
	}
	// set: "" or the outcome of a failed SetExpression; eval: the rendered outcome of Evaluate
	set := func(calc mv, e string) string {
		m.steps = 0
		r, out := callM(c, m, ct, "SetExpression", calc, e)
		if out.kind != "ok" {
			return out.kind + ": " + out.why
		}
		if _, isNil := r.(mNilT); !isNil {
			return "error " + errorCode(r)
		}
		return ""
	}
	eval := func(calc mv) string {
		m.steps = 0
		r, out := callM(c, m, ct, "Evaluate", calc)
		tp, ok := r.(mTuple)
		if out.kind != "ok" || !ok || len(tp) != 2 {
			return out.kind + ": " + out.why
		}
		if _, isNil := tp[1].(mNilT); !isNil {
			return "error " + errorCode(tp[1])
		}
		return deep(tp[0], 0)
	}
	undecided := func(s string) bool { return strings.HasPrefix(s, "opaque") }
	followUps := []string{"Array(x * 2 + y, d + 1, s + '!')"}
	freshMemo := map[string]string{}
	freshValue := func(e string) string {
		if v, ok := freshMemo[e]; ok {
			return v
		}
		calc, why := fresh()
		if why != "" {
			return "opaque: " + why
		}
		v := set(calc, e)
		if v == "" {
			v = eval(calc)
		}
		freshMemo[e] = v
		return v
	}
	for i, e := range reuseRealExpressions(c.Tier == "thorough") {
		if i%reuseRealParts != part {
			continue
		}
		noteSample("REUSE.instances/values", e)
		want := freshValue(e)
		if undecided(want) {
			// the value depends on a function of another module applied to something that is no numeral (the
			// conversion of 'ab' to a number …): the member is outside the finite model, by construction of the family
			continue
		}
		calc, why := fresh()
		if why != "" {
			note("", why)
			return
		}
		if got := set(calc, e); got != "" {
			if got != want {
				note(fmt.Sprintf("SetExpression(%q) answers %s on one fresh calculator and %s on another", e, got, want), "")
			}
			continue
		}
		bad := ""
		for n := 1; n <= 3 && bad == ""; n++ {
			got := eval(calc)
			switch {
			case undecided(got):
				note("", fmt.Sprintf("evaluation %d of %q: %s", n, e, got))
			case got != want:
				bad = fmt.Sprintf("one calculator with the default variables x=2, y=3, d=0.5, s=\"ab\", expression %q set once: evaluation %d gives %s; a fresh calculator with the same variable values gives %s (what was evaluated before must not matter)", e, n, got, want)
			}
		}
		for _, f := range followUps {
			if bad != "" {
				break
			}
			wantF := freshValue(f)
			got := set(calc, f)
			if got == "" {
				got = eval(calc)
			}
			switch {
			case undecided(got) || undecided(wantF):
				note("", fmt.Sprintf("%q after %q: %s / %s", f, e, got, wantF))
			case got != wantF:
				bad = fmt.Sprintf("a calculator with the default variables x=2, y=3, d=0.5, s=\"ab\" that evaluated %q three times before gives %s for %q; a fresh calculator with the same variable values gives %s", e, got, f, wantF)
			}
		}
		note(bad, "")
	}
}

// ---- histories on one calculator as shipped -----------------------------------------------------------
//
// One calculator (automatic variables on, as constructed) is given three expression texts one after the
// other - well-formed ones with and without the variable x, malformed ones - and at one point of the
// history the caller stores 7 in the default variable x (Locate("x").SetValue, or FindByName("x").SetValue
// when the collection already has the entry). After every SetExpression, and after a closing
// SetExpression("x + 1"), everything the instance shows - the outcome of SetExpression, the accessors
// (expression, tokens, program) and the outcome of Evaluate - must equal what a freshly constructed
// calculator shows for that text alone under the same variable values: x = 7 if the caller stored it by
// then, and a null entry for every other identifier of the well-formed expressions set so far (C18:
// entries and values already there are kept).

const reuseHistoryParts = 2

func (c *Ctx) reuseHistories(part int, note func(bad, undec string)) {
	m := newMach(c)
	m.maxSteps = 3000000
	m.external = decimalNumerals
	cctor := c.MustFunc(pkgCalc, "", "NewExpressionCalculator")
	ct := resultType(cctor)
	vfi := c.MustFunc(pkgVariants, "", "VariantFromInteger")
	vtNames := c.variantTypeNames()
	show := func(v mv) string {
		if p, ok := v.(*mv); !ok || p == nil {
			return "nil"
		}
		t, out := m.Call(c.MustFunc(pkgVariants, "Variant", "Type"), v)
		k, _ := t.(int64)
		if out.kind != "ok" {
			return "?" + out.why
		}
		pl, _ := m.Call(c.MustFunc(pkgVariants, "Variant", "AsObject"), v)
		return vtNames[k] + " " + mRender(pl)
	}
	// assign: the caller stores 7 in x; how: "Locate" or "FindByName" (Locate when there is no entry yet)
	assign := func(calc mv, how string) (string, string) {
		dv, out := callM(c, m, ct, "DefaultVariables", calc)
		col, ok := dv.(mIface)
		if out.kind != "ok" || !ok {
			return "", "DefaultVariables: " + out.why
		}
		val, _ := m.Call(vfi, int64(7))
		var vr mv
		if how == "FindByName" {
			vr, out = callM(c, m, col.t, "FindByName", col.v, "x")
			if vi, ok := vr.(mIface); out.kind != "ok" || !ok || vi.v == nil {
				how = "Locate"
			} else if _, isNil := vi.v.(mNilT); isNil {
				how = "Locate"
			}
		}
		if how == "Locate" {
			vr, out = callM(c, m, col.t, "Locate", col.v, "x")
		}
		vi, ok := vr.(mIface)
		if out.kind != "ok" || !ok {
			return "", how + "(\"x\"): " + out.why
		}
		if _, out = callM(c, m, vi.t, "SetValue", vi.v, val); out.kind != "ok" {
			return "", how + "(\"x\").SetValue(7): " + out.why
		}
		return "DefaultVariables()." + how + "(\"x\").SetValue(7)", ""
	}
	// observe: SetExpression's outcome, the accessors, Evaluate's outcome
	observe := func(calc mv, text string) string {
		m.steps = 0
		var b strings.Builder
		r, out := callM(c, m, ct, "SetExpression", calc, text)
		if out.kind != "ok" {
			return out.kind + ": SetExpression: " + out.why
		}
		if _, isNil := r.(mNilT); !isNil {
			b.WriteString("SetExpression reports " + errorCode(r))
		} else {
			b.WriteString("SetExpression reports no error")
		}
		obs := c.reuseObservable(m, ct, calc)
		if strings.HasPrefix(obs, "opaque") || strings.HasPrefix(obs, "panic") {
			return obs
		}
		b.WriteString("; " + obs)
		m.steps = 0
		ev, out := callM(c, m, ct, "Evaluate", calc)
		tp, ok := ev.(mTuple)
		if out.kind != "ok" || !ok || len(tp) != 2 {
			return out.kind + ": Evaluate: " + out.why
		}
		if _, isNil := tp[1].(mNilT); !isNil {
			b.WriteString("; Evaluate() reports " + errorCode(tp[1]))
		} else {
			b.WriteString("; Evaluate() gives " + show(tp[0]))
		}
		return b.String()
	}
	// the caller's view of the default variables (C18: with automatic variables on a well-formed expression
	// leaves one entry per identifier, entries and values already there are kept): names → assigned
	type held map[string]bool
	keyOf := func(h held) string {
		var ks []string
		for k, a := range h {
			ks = append(ks, fmt.Sprintf("%s:%v", k, a))
		}
		sort.Strings(ks)
		return strings.Join(ks, ",")
	}
	freshMemo := map[string]string{}
	freshOf := func(text string, h held) string {
		k := keyOf(h) + "|" + text
		if v, ok := freshMemo[k]; ok {
			return v
		}
		calc, out := m.Call(cctor)
		v := ""
		if out.kind != "ok" {
			v = "opaque: NewExpressionCalculator: " + out.why
		} else {
			dv, out := callM(c, m, ct, "DefaultVariables", calc)
			col, ok := dv.(mIface)
			if out.kind != "ok" || !ok {
				v = "opaque: DefaultVariables: " + out.why
			}
			var names []string
			for name := range h {
				names = append(names, name)
			}
			sort.Strings(names)
			for _, name := range names {
				if v != "" {
					break
				}
				if h[name] {
					if _, why := assign(calc, "Locate"); why != "" {
						v = "opaque: " + why
					}
				} else if _, out := callM(c, m, col.t, "Locate", col.v, name); out.kind != "ok" {
					v = "opaque: Locate: " + out.why
				}
			}
		}
		if v == "" {
			v = observe(calc, text)
		}
		freshMemo[k] = v
		return v
	}
	// malformed texts leave the variables alone
	wellFormed := map[string]bool{"x + 1": true, "2 * 3": true, "y - 1": true, "x * y": true, "X - x": true, "y": true}
	texts := []string{"x + 1", "2 * 3", "y - 1", "x * y", "x +", "(2"}
	if c.Tier == "thorough" {
		texts = append(texts, "X - x", "y", "2 3", "max(x, 2")
	}
	const closing = "x + 1"
	n := 0
	for _, t1 := range texts {
		for _, t2 := range texts {
			for _, t3 := range texts {
				for at := 0; at <= 3; at++ {
					n++
					if n%reuseHistoryParts != part {
						continue
					}
					how := []string{"Locate", "FindByName"}[(n/reuseHistoryParts)%2]
					calc, out := m.Call(cctor)
					if out.kind != "ok" {
						note("", "NewExpressionCalculator: "+out.why)
						return
					}
					var hist []string
					bad, undec := "", ""
					h := held{}
					for i, text := range []string{t1, t2, t3, closing} {
						if i == at {
							did, why := assign(calc, how)
							if why != "" {
								undec = strings.Join(hist, ", ") + ": " + why
								break
							}
							hist, h["x"] = append(hist, did), true
						}
						got, want := observe(calc, text), freshOf(text, h)
						hist = append(hist, fmt.Sprintf("SetExpression(%q)", text))
						if strings.HasPrefix(got, "opaque") || strings.HasPrefix(want, "opaque") {
							undec = strings.Join(hist, ", ") + ": " + got + " / " + want
							break
						}
						if got != want {
							var vals []string
							for name, a := range h {
								vals = append(vals, name+map[bool]string{true: " = 7 stored by the caller", false: " = null"}[a])
							}
							sort.Strings(vals)
							bad = fmt.Sprintf("one calculator, %s: %s; a freshly constructed calculator given %q alone, its default variables [%s] as the history left them: %s - what the instance processed before must not matter", strings.Join(hist, ", "), got, text, strings.Join(vals, ", "), want)
							break
						}
						if wellFormed[text] {
							ids, _ := refIdentifiers(lexemes(text))
							for _, id := range ids {
								id = strings.ToLower(id)
								if _, have := h[id]; !have {
									h[id] = false
								}
							}
						}
					}
					note(bad, undec)
				}
			}
		}
	}
}

// decimalNumerals gives the number converters of the commons module (another module: opaque to the
// machine) their meaning on plain decimal numerals, so that literals in expression texts have values;
// every other argument stays an opaque symbol.
func decimalNumerals(m *mach, fn *ssa.Function, args []mv) (mv, bool) {
	if fn.Signature.Recv() == nil || len(args) != 2 || !strings.HasSuffix(fnFullName(fn), "Converter."+fn.Name()) || !strings.Contains(fnFullName(fn), "commons-gox/convert.") {
		return nil, false
	}
	a := args[1]
	if i, isIface := a.(mIface); isIface {
		a = i.v
	}
	s, ok := a.(string)
	if !ok {
		return nil, false
	}
	switch fn.Name() {
	case "ToInteger", "ToLong":
		if n, err := strconv.ParseInt(s, 10, 32); err == nil {
			return n, true
		}
	case "ToFloat":
		if f, err := strconv.ParseFloat(s, 32); err == nil && !strings.ContainsAny(s, "xXpP_nNiI") {
			return f, true
		}
	case "ToDouble":
		if f, err := strconv.ParseFloat(s, 64); err == nil && !strings.ContainsAny(s, "xXpP_nNiI") {
			return f, true
		}
	}
	return nil, false
}

// reuseRealExpressions: the family of expression texts (deterministic order).
func reuseRealExpressions(thorough bool) []string {
	var out []string
	first := []string{"2", "'ab'", "x", "s", "(x + 1)"}
	if thorough {
		first = append(first, "2.5", "d", "(s + 'c')")
	}
	rest := [][]string{{"3", "1", "4", "5"}, {"y", "x", "y", "x"}, {"(y - 1)", "(x * 2)", "(y + x)", "(1 + 1)"}}
	var names []string
	for n := range funcArityOracle {
		names = append(names, n)
	}
	sort.Strings(names)
	for _, n := range names {
		taken := 0
		for _, k := range funcArityOracle[n] {
			if taken == 2 && !thorough || taken == 4 {
				break
			}
			taken++
			if k == 0 {
				out = append(out, n+"()")
				continue
			}
			for _, f := range first {
				for _, r := range rest {
					args := []string{f}
					for i := 1; i < k; i++ {
						args = append(args, r[(i-1)%len(r)])
					}
					out = append(out, n+"("+strings.Join(args, ", ")+")")
					if k == 1 {
						break
					}
				}
			}
		}
	}
	for _, op := range []string{"+", "-", "*", "/", "%", "^", "AND", "OR", "XOR", "=", "<>", "<", ">", "<=", ">=", "<<", ">>", "IN", "NOT IN", "LIKE"} {
		as, bs := []string{"6", "x", "s"}, []string{"2", "y"}
		if thorough {
			as, bs = append(as, "'ab'", "d"), append(bs, "s")
		}
		for _, a := range as {
			for _, b := range bs {
				out = append(out, a+" "+op+" "+b)
			}
		}
	}
	for _, a := range []string{"6", "x", "s", "d", "'ab'"} {
		out = append(out, "-"+a, "NOT "+a, a+" IS NULL", a+" IS NOT NULL", "Array(1, x, s)["+a+"]", "Array("+a+", 7)[0]")
	}
	return out
}

func init() {
	register(&Rule{ID: "REUSE.instances", Floor: 3,
		Doc: "every ordered pair of a pool of well-formed and malformed inputs processed by one parser / one calculator (also after a failed evaluation) / one template instance on the abstract machine: the second result (program and variable names; operations, operand order and result; rendering or error code) equals what a freshly constructed instance gives; the calculator as shipped (default functions and operations, default variables with values): an expression evaluated three times and a later expression reading the same variables give the values of a fresh calculator; histories of three expression texts (with and without a variable, malformed ones) with one assignment by the caller somewhere in between: after every SetExpression the accessors and Evaluate show what a fresh calculator shows for that text under the same variable values; a parser after a rejected text shows what a fresh parser shows",
		Run: func(c *Ctx) []*Obligation {
			o := newObl("REUSE.instances")
			res := c.reuseRun()
			o.list = append(o.list, emitSimple(c, "REUSE.instances", "parsers.ExpressionParser#reuse", c.Pos(c.MustFunc(pkgParsers, "", "NewExpressionParser").Pos()), res["parser"], "results equal a fresh instance's")...)
			o.list = append(o.list, emitSimple(c, "REUSE.instances", "calculator.ExpressionCalculator#reuse", c.Pos(c.MustFunc(pkgCalc, "", "NewExpressionCalculator").Pos()), res["calculator"], "results equal a fresh instance's")...)
			o.list = append(o.list, emitSimple(c, "REUSE.instances", "calculator.ExpressionCalculator#reuse-values", c.Pos(c.MustFunc(pkgCalc, "ExpressionCalculator", "Evaluate").Pos()), res["calculator-real"], "values equal a fresh instance's")...)
			o.list = append(o.list, emitSimple(c, "REUSE.instances", "calculator.ExpressionCalculator#reuse-histories", c.Pos(c.MustFunc(pkgCalc, "ExpressionCalculator", "SetExpression").Pos()), res["calculator-histories"], "every step of every history shows what a fresh instance shows")...)
			o.list = append(o.list, emitSimple(c, "REUSE.instances", "mustache.MustacheTemplate#reuse", c.Pos(c.MustFunc("mustache", "", "NewMustacheTemplate").Pos()), res["template"], "results equal a fresh instance's")...)
			return o.list
		}})
}
