package main

import (
	"fmt"
	"sort"
	"strings"
	"sync"
)

// ---------------------------------------------------------------------------------------------
// REUSE.instances (C05): a reused parser, calculator or template gives what a fresh instance gives.
// Every ordered pair of a pool (well-formed and malformed inputs) is processed by one instance on
// the abstract machine; the second result must equal the result of a freshly constructed instance.
// ---------------------------------------------------------------------------------------------

var reuseMemo map[string]*simpleVerdict
var reuseMu sync.Mutex

func (c *Ctx) reuseRun() map[string]*simpleVerdict {
	reuseMu.Lock()
	defer reuseMu.Unlock()
	if reuseMemo != nil {
		return reuseMemo
	}
	res := map[string]*simpleVerdict{"parser": {}, "calculator": {}, "template": {}}
	note := func(k, bad, undec string) {
		v := res[k]
		v.runs++
		if bad != "" && v.bad == "" {
			v.bad = bad
		}
		if undec != "" && v.undec == "" {
			v.undec = undec
		}
	}
	var wg sync.WaitGroup
	var mu sync.Mutex
	// ---- parser: tokens -> (error code | program, variable names) --------------------------------
	wg.Add(1)
	go func() {
		defer wg.Done()
		pool := []string{"a + b * c", "f ( a , b )", "a +", "( a", "a b", "x IS NOT NULL", "a [ 1 ]", "- a", "f ( g ( a ) , b ) + c", "a ?", "", "1"}
		render := func(h *gxHarness, s string) string {
			r := h.parse(lexemes(s))
			switch r.kind {
			case "accept":
				vn, _ := callM(c, h.m, resultType(c.MustFunc(pkgParsers, "", "NewExpressionParser")), "VariableNames", h.parser)
				names, _ := stringsOfSlice(vn)
				return "program [" + strings.Join(r.rpn, " ") + "] variables " + fmt.Sprint(names)
			case "reject":
				return "error " + r.code
			}
			return r.kind + ": " + r.why
		}
		fresh := map[string]string{}
		for _, s := range pool {
			fresh[s] = render(c.newGxHarness(), s)
		}
		h := c.newGxHarness()
		for _, s1 := range pool {
			for _, s2 := range pool {
				render(h, s1)
				got := render(h, s2)
				mu.Lock()
				switch {
				case strings.HasPrefix(got, "opaque"):
					note("parser", "", got)
				case got != fresh[s2]:
					note("parser", fmt.Sprintf("a parser that parsed ‹%s› before gives %s for ‹%s›; a fresh parser gives %s", s1, got, s2, fresh[s2]), "")
				default:
					note("parser", "", "")
				}
				mu.Unlock()
			}
		}
	}()
	// ---- parser through ParseString (text entry point): every ordered pair, the same text twice included ------
	wg.Add(1)
	go func() {
		defer wg.Done()
		pool := []string{"a + b * c", "f(a, b)", "a +", "(a", "a b", "x IS NOT NULL", "a[1]", "2 + ", "max(1, 2", "1"}
		ctor := c.MustFunc(pkgParsers, "", "NewExpressionParser")
		pt := resultType(ctor)
		render := func(m *mach, parser mv, s string) string {
			m.steps = 0
			r, out := callM(c, m, pt, "ParseString", parser, s)
			if out.kind != "ok" {
				return out.kind + ": " + out.why
			}
			if _, isNil := r.(mNilT); !isNil {
				return "error " + errorCode(r)
			}
			vn, _ := callM(c, m, pt, "VariableNames", parser)
			names, _ := stringsOfSlice(vn)
			rt, _ := callM(c, m, pt, "ResultTokens", parser)
			n := 0
			if sl, ok := rt.(mSlice); ok {
				n = len(sl.arr)
			}
			return fmt.Sprintf("program of %d tokens, variables %v", n, names)
		}
		fresh := map[string]string{}
		for _, s := range pool {
			m := newMach(c)
			m.maxSteps = 3000000
			p, out := m.Call(ctor)
			if out.kind != "ok" {
				mu.Lock()
				note("parser", "", "NewExpressionParser: "+out.why)
				mu.Unlock()
				return
			}
			fresh[s] = render(m, p, s)
		}
		m := newMach(c)
		m.maxSteps = 3000000
		p, _ := m.Call(ctor)
		for _, s1 := range pool {
			for _, s2 := range pool {
				render(m, p, s1)
				got := render(m, p, s2)
				mu.Lock()
				switch {
				case strings.HasPrefix(got, "opaque"):
					note("parser", "", got)
				case got != fresh[s2]:
					note("parser", fmt.Sprintf("a parser that was given the text %q before answers %q with %s; a fresh parser answers %s", s1, s2, got, fresh[s2]), "")
				default:
					note("parser", "", "")
				}
				mu.Unlock()
			}
		}
	}()
	// ---- calculator: expression -> operations trace + result, with auto-variables ------------------
	wg.Add(1)
	go func() {
		defer wg.Done()
		pool := []string{"a + b * c", "f ( a , b )", "NOT a", "a IS NULL", "a [ b ]", "g ( )", "a - b - c", "a NOT IN b"}
		render := func(h *geHarness, s string, failAt int) string {
			r := h.evaluate(lexemes(s), failAt, true)
			return r.kind + " [" + strings.Join(r.trace, "; ") + "] → " + r.result + r.why
		}
		fresh := map[string]string{}
		for _, s := range pool {
			fresh[s] = render(c.newGeHarness(), s, 0)
		}
		h := c.newGeHarness()
		for _, s1 := range pool {
			for _, s2 := range pool {
				for _, fail := range []int{0, 1} {
					render(h, s1, fail)
					got := render(h, s2, 0)
					// result names r1.. restart per evaluation; operand identities are per name
					mu.Lock()
					switch {
					case strings.HasPrefix(got, "opaque"):
						note("calculator", "", got)
					case got != fresh[s2]:
						what := "evaluated"
						if fail > 0 {
							what = "failed while evaluating"
						}
						note("calculator", fmt.Sprintf("a calculator that %s ‹%s› before gives %s for ‹%s›; a fresh calculator gives %s", what, s1, got, s2, fresh[s2]), "")
					default:
						note("calculator", "", "")
					}
					mu.Unlock()
				}
			}
		}
	}()
	// ---- template: template text + variables -> rendering / error ---------------------------------
	wg.Add(1)
	go func() {
		defer wg.Done()
		pool := []string{"x{{a}}y", "{{#a}}in{{/a}}out", "{{^b}}n{{/b}}", "{{#a}}", "{{a", "plain", "{{{a}}}{{!c}}", "{{#if a}}{{#b}}1{{/b}}{{/if}}", "{{/a}}", ""}
		ctor := c.MustFunc("mustache", "", "NewMustacheTemplate")
		tt := resultType(ctor)
		vars := map[string]string{"a": "A/\"", "b": ""}
		mkMap := func() *mMap {
			mm := &mMap{k: map[string]mv{}, v: map[string]mv{}}
			var keys []string
			for k := range vars {
				keys = append(keys, k)
			}
			sort.Strings(keys)
			for _, k := range keys {
				ks, _ := mapKey(k)
				mm.keys = append(mm.keys, ks)
				mm.k[ks], mm.v[ks] = k, vars[k]
			}
			return mm
		}
		render := func(m *mach, tm mv, s string) string {
			m.steps = 0
			e, out := callM(c, m, tt, "SetTemplate", tm, s)
			if out.kind != "ok" {
				return out.kind + ": " + out.why
			}
			if _, isNil := e.(mNilT); !isNil {
				return "error " + errorCode(e)
			}
			r, out := callM(c, m, tt, "EvaluateWithVariables", tm, mkMap())
			tp, ok := r.(mTuple)
			if out.kind != "ok" || !ok {
				return out.kind + ": " + out.why
			}
			if _, isNil := tp[1].(mNilT); !isNil {
				return "render error " + errorCode(tp[1])
			}
			vn := ""
			if dv, o := callM(c, m, tt, "DefaultVariables", tm); o.kind == "ok" {
				if dm, ok := dv.(*mMap); ok && dm != nil {
					var ks []string
					for _, k := range dm.keys {
						s, _ := dm.k[k].(string)
						ks = append(ks, strings.ToLower(s))
					}
					sort.Strings(ks)
					vn = " default variables " + fmt.Sprint(ks)
				}
			}
			return "renders " + catRender(tp[0]) + vn
		}
		fresh := map[string]string{}
		for _, s := range pool {
			m := newMach(c)
			m.maxSteps = 2000000
			tm, out := m.Call(ctor)
			if out.kind != "ok" {
				mu.Lock()
				note("template", "", "NewMustacheTemplate: "+out.why)
				mu.Unlock()
				return
			}
			fresh[s] = render(m, tm, s)
		}
		m := newMach(c)
		m.maxSteps = 2000000
		shared, _ := m.Call(ctor)
		for _, s1 := range pool {
			for _, s2 := range pool {
				// (a) the same instance, nothing in between: the rendering (default variables accumulate by
				// design - entries already there are kept - and are not compared)
				strip := func(r string) string {
					if i := strings.Index(r, " default variables "); i >= 0 {
						return r[:i]
					}
					return r
				}
				render(m, shared, s1)
				got := render(m, shared, s2)
				mu.Lock()
				switch {
				case strings.HasPrefix(got, "opaque"):
					note("template", "", got)
				case strip(got) != strip(fresh[s2]):
					note("template", fmt.Sprintf("a template instance that held %q before gives %s for %q; a fresh instance gives %s", s1, strip(got), s2, strip(fresh[s2])), "")
				default:
					note("template", "", "")
				}
				mu.Unlock()
				// (b) after Clear everything equals a fresh instance
				tm, _ := m.Call(ctor)
				render(m, tm, s1)
				callM(c, m, tt, "Clear", tm)
				got = render(m, tm, s2)
				mu.Lock()
				switch {
				case strings.HasPrefix(got, "opaque"):
					note("template", "", got)
				case got != fresh[s2]:
					note("template", fmt.Sprintf("a template instance that held %q before (and was cleared) gives %s for %q; a fresh instance gives %s", s1, got, s2, fresh[s2]), "")
				default:
					note("template", "", "")
				}
				mu.Unlock()
			}
		}
	}()
	wg.Wait()
	reuseMemo = res
	return res
}

func init() {
	register(&Rule{ID: "REUSE.instances", Floor: 3,
		Doc: "every ordered pair of a pool of well-formed and malformed inputs processed by one parser / one calculator (also after a failed evaluation) / one template instance on the abstract machine: the second result (program and variable names; operations, operand order and result; rendering or error code) equals what a freshly constructed instance gives",
		Run: func(c *Ctx) []*Obligation {
			o := newObl("REUSE.instances")
			res := c.reuseRun()
			o.list = append(o.list, emitSimple(c, "REUSE.instances", "parsers.ExpressionParser#reuse", c.Pos(c.MustFunc(pkgParsers, "", "NewExpressionParser").Pos()), res["parser"], "results equal a fresh instance's")...)
			o.list = append(o.list, emitSimple(c, "REUSE.instances", "calculator.ExpressionCalculator#reuse", c.Pos(c.MustFunc(pkgCalc, "", "NewExpressionCalculator").Pos()), res["calculator"], "results equal a fresh instance's")...)
			o.list = append(o.list, emitSimple(c, "REUSE.instances", "mustache.MustacheTemplate#reuse", c.Pos(c.MustFunc("mustache", "", "NewMustacheTemplate").Pos()), res["template"], "results equal a fresh instance's")...)
			return o.list
		}})
}
