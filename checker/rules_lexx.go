package main

import (
	"fmt"
	"strings"
	"sync"
)

// ---------------------------------------------------------------------------------------------
// TOK.lexemes (C13): sequences of well-formed lexemes of every lexical class, written so that
// neighbours cannot merge, are tokenized back into exactly those lexemes with exactly those classes
// by the generic and the expression tokenizer (evaluated abstractly through TokenizeBuffer).
// ---------------------------------------------------------------------------------------------

type lexItem struct {
	text  string
	class string // expected token class; "Word|Quoted" = either
	kind  string // w(ord) k(eyword) n(umber) q(uoted) c(omment) s(ymbol)
}

func lexPool(kind string) []lexItem {
	var p []lexItem
	add := func(class, k string, texts ...string) {
		for _, t := range texts {
			p = append(p, lexItem{t, class, k})
		}
	}
	if kind == "expression" {
		add("Word", "w", "abc", "a1", "_x", "Éa", "x_y", "e", "E5", "ands", "nullable", "Àb", "Øre", "ßa", "ñu", "öl", "þ", "ÿz", "aÿ×"[:3])
		add("Keyword", "k", "and", "AND", "Or", "not", "Xor", "like", "IS", "in", "Null", "true", "FALSE")
		add("Integer", "n", "0", "12", "907")
		add("Float", "n", "1.5", "0.25", ".5", "1e5", "1.5E-3", "2e+7", "3.E2")
		add("Quoted", "q", "'a'", "'a''b'", "''", "'x y'", "'é\nж'", "''''", "'\"'")
		add("Word|Quoted", "q", "\"q\"", "\"a b\"")
		add("Comment", "c", "/* c */", "/**/", "/* a\nb */", "/* ' */", "/*/ c */", "/*/*/", "/***/", "/* boxed **/", "/** doc */")
		add("Symbol", "s", "+", "-", "*", "/", "%", "^", "(", ")", "[", "]", ",", "<", ">", "=", "<=", ">=", "<>", "!=", "<<", ">>", "!", "&", ";")
		// identifiers that merely contain a keyword, or a letter that case-folds onto a keyword's letter
		add("Word", "w", "andy", "inn", "isle", "nota", "xors", "truest", "falsey", "liked", "li\u212ae", "LI\u212aE")
		// every other ASCII punctuation character is a symbol of its own
		add("Symbol", "s", "$", ":", "?", "@", "\\", "`", "{", "|", "}", "~", "#")
		// identifiers that look like the exponent part of a number or like a number with a letter in front: a
		// number needs a digit before its exponent, so none of these merges with a symbol in front of it - the
		// dot included, which is a symbol of its own wherever no digit follows it
		add("Word", "w", "E", "e1", "E27_max", "e_1", "e5x", "E2y", "e1e1", "x1e5", "_1", "O0")
		add("Symbol", "s", ".")
	} else {
		add("Word", "w", "abc", "a1", "жук", "Éa", "e", "x_y", "Øre", "ñu", "ÿz", "net-price"[:3])
		add("Integer", "n", "0", "12", "-3")
		add("Float", "n", "1.5", "-0.5", ".5", "-.25")
		add("Quoted", "q", "'a'", "\"b c\"", "''", "'é\nж'", "'\"'")
		add("Symbol", "s", "<", ">", "=", "<=", ">=", "<>", "+", "*", "/", "(", ")", ",", ";", "!", "{", "}")
		// every other ASCII punctuation character is a symbol of its own (the underscore included: here it continues a word but does not start one)
		add("Symbol", "s", "_", "$", "%", "&", ":", "?", "@", "[", "\\", "]", "^", "`", "|", "~")
		// a sign or dot that no digit follows is a symbol, also directly before an identifier (after one it may continue the word)
		add("Word", "w", "E", "e1", "E27_max", "e5x", "x1e5")
		add("Symbol", "s", ".", "-")
	}
	return p
}

func classOK(want, got string) bool {
	for _, w := range strings.Split(want, "|") {
		if w == got {
			return true
		}
	}
	return false
}

var lexMemo map[string]*simpleVerdict
var lexMu sync.Mutex

func (c *Ctx) lexRun() map[string]*simpleVerdict {
	lexMu.Lock()
	defer lexMu.Unlock()
	if lexMemo != nil {
		return lexMemo
	}
	res := map[string]*simpleVerdict{}
	var mu sync.Mutex
	var wg sync.WaitGroup
	seps := []string{" ", "\n", "\t ", "\r\n", "  "}
	for _, kind := range []string{"expression", "generic"} {
		kind := kind
		pool := lexPool(kind)
		type seq struct {
			text string
			want []lexItem
		}
		var seqs []seq
		k := 0
		for _, a := range pool {
			seqs = append(seqs, seq{a.text, []lexItem{a}})
			for _, b := range pool {
				sep := seps[k%len(seps)]
				k++
				seqs = append(seqs, seq{a.text + sep + b.text, []lexItem{a, {sep, "Whitespace", " "}, b}})
				// neighbours of different kinds that cannot merge are written without a separator too
				if (a.kind == "s") != (b.kind == "s") && a.kind != "c" && b.kind != "c" {
					sym, other := a, b
					if b.kind == "s" {
						sym, other = b, a
					}
					if strings.ContainsAny(sym.text, "-./") && other.kind == "n" {
						continue
					}
					if kind == "generic" && (sym.text == "_" || (strings.ContainsAny(sym.text, "-.") && sym.text == b.text)) {
						continue
					}
					seqs = append(seqs, seq{a.text + b.text, []lexItem{a, b}})
				}
				if a.kind == "q" && (b.kind == "w" || b.kind == "k" || b.kind == "n") || b.kind == "q" && (a.kind == "w" || a.kind == "k") {
					seqs = append(seqs, seq{a.text + b.text, []lexItem{a, b}})
				}
			}
		}
		// triples around every multi-character symbol and every keyword
		for _, b := range pool {
			if (b.kind == "s" && len(b.text) > 1) || b.kind == "k" {
				for _, a := range []lexItem{{"abc", "Word", "w"}, {"12", "Integer", "n"}, {"'a'", "Quoted", "q"}} {
					seqs = append(seqs, seq{a.text + " " + b.text + " " + a.text, []lexItem{a, {" ", "Whitespace", " "}, b, {" ", "Whitespace", " "}, a}})
					if b.kind == "s" {
						seqs = append(seqs, seq{a.text + b.text + a.text, []lexItem{a, b, a}})
					}
				}
			}
		}
		// a backslash is ordinary content of a quoted string (the only way to write a quote inside a string is the
		// doubled quote of the expression tokenizer): strings whose content is, starts with, contains and ends with one
		// or two backslashes, a backslash before the other quote character and before ordinary characters, alone, in
		// parentheses and followed by lexemes of every kind with and without a separator
		{
			sq, dq := "Quoted", "Quoted"
			if kind == "expression" {
				dq = "Word|Quoted"
			}
			bs := []lexItem{{`'C:\'`, sq, "q"}, {`'\'`, sq, "q"}, {`'\\'`, sq, "q"}, {`'a\\'`, sq, "q"}, {`'\d+\'`, sq, "q"}, {`'a\b'`, sq, "q"},
				{`'\n'`, sq, "q"}, {`'\ '`, sq, "q"}, {`'say \"hi\'`, sq, "q"}, {`'\"'`, sq, "q"}, {`"D:\tmp\"`, dq, "q"}, {`"it\'s"`, dq, "q"}, {`"\"`, dq, "q"}, {`"\\"`, dq, "q"}}
			if kind == "expression" {
				bs = append(bs, lexItem{`'a\'''`, sq, "q"}, lexItem{`'''\'`, sq, "q"}, lexItem{`'\'''`, sq, "q"})
			}
			sp, open, cl := lexItem{" ", "Whitespace", " "}, lexItem{"(", "Symbol", "s"}, lexItem{")", "Symbol", "s"}
			follow := []lexItem{{"abc", "Word", "w"}, {"12", "Integer", "n"}, {"'a'", "Quoted", "q"}, {"+", "Symbol", "s"}, {",", "Symbol", "s"}, {"<=", "Symbol", "s"}}
			for i, q := range bs {
				seqs = append(seqs, seq{q.text, []lexItem{q}}, seq{"(" + q.text + ")", []lexItem{open, q, cl}})
				for _, f := range follow {
					seqs = append(seqs, seq{q.text + " " + f.text, []lexItem{q, sp, f}}, seq{f.text + " " + q.text + " " + f.text, []lexItem{f, sp, q, sp, f}})
					if f.kind != "q" {
						seqs = append(seqs, seq{q.text + f.text, []lexItem{q, f}})
					}
				}
				q2 := bs[(i+1)%len(bs)]
				seqs = append(seqs, seq{q.text + " " + q2.text, []lexItem{q, sp, q2}}, seq{q.text + "," + q2.text + "," + q.text, []lexItem{q, follow[4], q2, follow[4], q}})
			}
		}
		// every single-character symbol between two identifiers, exponent look-alikes among them
		for _, b := range pool {
			if b.kind != "s" || len([]rune(b.text)) != 1 || (kind == "generic" && strings.ContainsAny(b.text, "-._")) {
				continue
			}
			for _, a := range []string{"abc", "e1", "E27_max", "x9"} {
				for _, d := range []string{"e1", "E2y", "e", "abc", "e5x"} {
					seqs = append(seqs, seq{a + b.text + d, []lexItem{{a, "Word", "w"}, b, {d, "Word", "w"}}})
				}
			}
		}
		// a symbol, an identifier that looks like an exponent marker, a sign, a number: four lexemes
		if kind == "expression" {
			for _, s0 := range []string{".", "(", ",", "*"} {
				for _, id := range []string{"e", "E", "e1", "E2"} {
					for _, sg := range []string{"-", "+"} {
						for _, n := range []lexItem{{"3", "Integer", "n"}, {"12", "Integer", "n"}, {"1.5", "Float", "n"}} {
							seqs = append(seqs, seq{s0 + id + sg + n.text, []lexItem{{s0, "Symbol", "s"}, {id, "Word", "w"}, {sg, "Symbol", "s"}, n}})
							seqs = append(seqs, seq{"a" + s0 + id + sg + n.text, []lexItem{{"a", "Word", "w"}, {s0, "Symbol", "s"}, {id, "Word", "w"}, {sg, "Symbol", "s"}, n}})
						}
					}
				}
			}
		}
		// a sign is a symbol in expressions but part of the number generically
		if kind == "expression" {
			seqs = append(seqs,
				seq{"-3", []lexItem{{"-", "Symbol", "s"}, {"3", "Integer", "n"}}},
				seq{"-.5", []lexItem{{"-", "Symbol", "s"}, {".5", "Float", "n"}}},
				seq{"a-3", []lexItem{{"a", "Word", "w"}, {"-", "Symbol", "s"}, {"3", "Integer", "n"}}},
				seq{"2-1.5e3", []lexItem{{"2", "Integer", "n"}, {"-", "Symbol", "s"}, {"1.5e3", "Float", "n"}}},
				seq{"+7", []lexItem{{"+", "Symbol", "s"}, {"7", "Integer", "n"}}},
				seq{"x.", []lexItem{{"x", "Word", "w"}, {".", "Symbol", "s"}}},
				seq{"12 .", []lexItem{{"12", "Integer", "n"}, {" ", "Whitespace", " "}, {".", "Symbol", "s"}}},
				seq{"(x)-.", []lexItem{{"(", "Symbol", "s"}, {"x", "Word", "w"}, {")", "Symbol", "s"}, {"-", "Symbol", "s"}, {".", "Symbol", "s"}}},
				seq{"5 -", []lexItem{{"5", "Integer", "n"}, {" ", "Whitespace", " "}, {"-", "Symbol", "s"}}},
				seq{"42٣x", []lexItem{{"42", "Integer", "n"}, {"٣", "Symbol|Unknown", "s"}, {"x", "Word", "w"}}})
		} else {
			seqs = append(seqs,
				seq{"-3", []lexItem{{"-3", "Integer", "n"}}},
				seq{"-.5", []lexItem{{"-.5", "Float", "n"}}},
				seq{"a -3", []lexItem{{"a", "Word", "w"}, {" ", "Whitespace", " "}, {"-3", "Integer", "n"}}},
				seq{"(-1.5)", []lexItem{{"(", "Symbol", "s"}, {"-1.5", "Float", "n"}, {")", "Symbol", "s"}}},
				seq{"x .", []lexItem{{"x", "Word", "w"}, {" ", "Whitespace", " "}, {".", "Symbol", "s"}}},
				seq{"5 -", []lexItem{{"5", "Integer", "n"}, {" ", "Whitespace", " "}, {"-", "Symbol", "s"}}},
				seq{"abc -", []lexItem{{"abc", "Word", "w"}, {" ", "Whitespace", " "}, {"-", "Symbol", "s"}}},
				seq{"(x)-.", []lexItem{{"(", "Symbol", "s"}, {"x", "Word", "w"}, {")", "Symbol", "s"}, {"-", "Symbol", "s"}, {".", "Symbol", "s"}}},
				seq{"42 ٣x", []lexItem{{"42", "Integer", "n"}, {" ", "Whitespace", " "}, {"٣x", "Word", "w"}}})
		}
		if kind == "generic" {
			for _, a := range pool {
				seqs = append(seqs, seq{a.text + " # c", []lexItem{a, {" ", "Whitespace", " "}, {"# c", "Comment", "c"}}})
				seqs = append(seqs, seq{a.text + " #c\n" + a.text, []lexItem{a, {" ", "Whitespace", " "}, {"#c", "Comment", "c"}, {"\n", "Whitespace", " "}, a}})
			}
		}
		// the default instance, then instances configured through the exported API
		type lexCfg struct {
			desc  string
			apply func(h *tkHarness) string
			seqs  []seq
		}
		cfgs := []lexCfg{{"", nil, seqs}}
		word := func(t string) lexItem { return lexItem{t, "Word", "w"} }
		sym := func(t string) lexItem { return lexItem{t, "Symbol", "s"} }
		blank := func(t string) lexItem { return lexItem{t, "Whitespace", " "} }
		mk := func(items ...lexItem) seq {
			var sb strings.Builder
			for _, it := range items {
				sb.WriteString(it.text)
			}
			return seq{sb.String(), items}
		}
		// further symbols registered with SymbolState().Add whose first character is routed to another state
		// than the symbol state (sign, dot, slash) or is a symbol character: the longest registered symbol wins
		// between identifiers, numbers, literals and brackets, with and without blanks
		for _, set := range [][]string{{"->"}, {"-="}, {"--"}, {"->", "-->"}, {"+="}, {"++"}, {"+-"}, {".."}, {"...", ".."}, {".="}, {"/="}, {"/>"}, {"/%", "/%/"}, {"=>", "=>>"}, {"-+", "+-", "./", "/."}} {
			set := set
			var ss []seq
			for _, t := range set {
				s := sym(t)
				lit, num := lexItem{"'q'", "Quoted", "q"}, lexItem{"12", "Integer", "n"}
				ss = append(ss, mk(s), mk(s, word("b")), mk(s, blank(" "), word("b")), mk(word("a"), blank(" "), s, blank(" "), word("b")), mk(word("a"), blank(" "), s),
					mk(sym("("), word("x"), sym(")"), s, word("y")), mk(sym("("), s, sym(")")), mk(num, blank(" "), s, blank(" "), num), mk(lit, s, lit), mk(s, blank("\n"), s), mk(sym("("), s, word("e1")),
					mk(num, blank(" "), s, blank(" "), sym("("), word("x"), sym(")")), mk(word("a"), blank("\t"), s, lit))
				if kind == "expression" {
					// (generically a sign or a dot after an identifier may continue the word)
					ss = append(ss, mk(word("a"), s, word("b")), mk(word("a"), s), mk(word("x1"), s, word("e5x"), s, word("y")), mk(word("a"), s, blank(" "), num))
				}
			}
			cfgs = append(cfgs, lexCfg{fmt.Sprintf("SymbolState().Add of %q", set), func(h *tkHarness) string { return h.addSymbols(set...) }, ss})
		}
		// a block of characters above U+00FF handed to another state than the one the broad default range names
		// (identifier letters of one script for the expression tokenizer, mathematical operators as symbols for the
		// generic one): a character of the block before, between and after characters of the rest of the range
		{
			type block struct {
				from, to rune
				ids      []string
			}
			blocks := []block{{0x0400, 0x04ff, []string{"цена", "ж", "скидка1", "Ёж_2"}}, {0x0370, 0x03ff, []string{"αβγ", "Ω", "λ1"}}, {0x4e00, 0x9fff, []string{"価格", "数"}}}
			outside := []string{"≥", "√", "→", "、", "€"}
			for bi, b := range blocks {
				b := b
				var ss []seq
				var others []lexItem
				state := "WordState"
				if kind == "expression" {
					for _, o := range outside {
						others = append(others, sym(o))
					}
				} else {
					// generically the broad range belongs to identifiers: the block is handed to the symbol state instead
					state = "SymbolState"
					b = block{0x2190, 0x22ff, []string{"≥", "√", "→", "∞"}}
					if bi > 0 {
						break
					}
					for _, o := range []string{"цена", "ж", "αβγ", "価格"} {
						others = append(others, word(o))
					}
				}
				for i, id := range b.ids {
					in := word(id)
					if kind == "generic" {
						in = sym(id)
					}
					for j, o := range others {
						sep := blank(seps[(i+j)%len(seps)])
						in2 := in
						in2.text = b.ids[(i+1)%len(b.ids)]
						ss = append(ss, mk(in), mk(o, in), mk(in, o), mk(o, sep, in), mk(in, sep, o), mk(in, sep, o, sep, in2), mk(o, sep, in, sep, o), mk(in, o, in2), mk(o, in, o, in2),
							mk(word("abc"), sep, o, sep, in, sep, word("x9")), mk(o, sep, o, sep, in, sep, in2), mk(in, sep, in2, sep, o, sep, o))
						if kind == "expression" {
							ss = append(ss, mk(o, o, in), mk(in, sym("<="), in2, sym("*"), o, in), mk(sym("("), in, sym(")"), o, in2))
						}
					}
				}
				// (an identifier may go on with any character above U+00FF: such neighbours can merge and are left out)
				kept := ss[:0]
				for _, q := range ss {
					merges := false
					for j := 0; j+1 < len(q.want); j++ {
						merges = merges || (q.want[j].kind == "w" && q.want[j+1].kind != " " && []rune(q.want[j+1].text)[0] > 0xff)
					}
					if !merges {
						kept = append(kept, q)
					}
				}
				ss = kept
				desc := fmt.Sprintf("SetCharacterState(%#x, %#x, %s())", b.from, b.to, state)
				if state == "WordState" {
					desc += fmt.Sprintf(" and WordState().SetWordChars(%#x, %#x, true)", b.from, b.to)
				}
				cfgs = append(cfgs, lexCfg{desc, func(h *tkHarness) string {
					if state == "WordState" {
						if why := h.stateCall(state, "SetWordChars", int64(b.from), int64(b.to), true); why != "" {
							return why
						}
					}
					return h.setCharState(b.from, b.to, state)
				}, ss})
			}
		}
		for ci := 1; ci < len(cfgs); ci++ {
			cfg := cfgs[ci]
			wg.Add(1)
			go func() {
				defer wg.Done()
				v := &simpleVerdict{}
				defer func() {
					mu.Lock()
					t := res[kind]
					if t == nil {
						t = &simpleVerdict{}
						res[kind] = t
					}
					t.runs += v.runs
					if v.bad != "" && (t.bad == "" || len(v.bad) < len(t.bad)) {
						t.bad = v.bad
					}
					if v.undec != "" && t.undec == "" {
						t.undec = v.undec
					}
					mu.Unlock()
				}()
				h := c.newTkHarness(kind)
				if h.fault != "" {
					v.undec = h.fault
					return
				}
				if why := h.setOptions(0); why != "" {
					v.undec = why
					return
				}
				if why := cfg.apply(h); why != "" {
					if strings.Contains(why, " panic ") {
						v.bad = fmt.Sprintf("%s tokenizer: %s - a valid configuration is refused", kind, why)
					} else {
						v.undec = kind + " tokenizer: " + why
					}
					return
				}
				for i, s := range cfg.seqs {
					v.runs++
					r := h.tokenize(s.text)
					show := fmt.Sprintf("%s tokenizer configured by %s, on %q", kind, cfg.desc, s.text)
					if i%37 == 0 {
						noteSample("TOK.lexemes/"+kind+"-configured", fmt.Sprintf("%s: %q", cfg.desc, s.text))
					}
					if r.kind == "panic" {
						v.bad = show + " panics: " + r.why
						continue
					}
					if r.kind != "ok" {
						v.undec = show + ": " + r.why
						continue
					}
					var ws []string
					for _, l := range s.want {
						ws = append(ws, fmt.Sprintf("%s(%q)", l.class, l.text))
					}
					ok := len(r.toks) == len(s.want)+1
					for j := 0; ok && j < len(s.want); j++ {
						if r.toks[j].val != s.want[j].text || !classOK(s.want[j].class, r.toks[j].typ) {
							ok = false
						}
					}
					if !ok && v.bad == "" {
						v.bad = fmt.Sprintf("%s gives [%s]; the lexemes written are [%s]", show, renderToks(r.toks), strings.Join(ws, " "))
					}
				}
			}()
		}
		nw := 6
		for w := 0; w < nw; w++ {
			wg.Add(1)
			go func(w int) {
				defer wg.Done()
				v := &simpleVerdict{}
				defer func() {
					mu.Lock()
					t := res[kind]
					if t == nil {
						t = &simpleVerdict{}
						res[kind] = t
					}
					t.runs += v.runs
					if v.bad != "" && (t.bad == "" || len(v.bad) < len(t.bad)) {
						t.bad = v.bad
					}
					if v.undec != "" && t.undec == "" {
						t.undec = v.undec
					}
					mu.Unlock()
				}()
				h := c.newTkHarness(kind)
				if h.fault != "" {
					v.undec = h.fault
					return
				}
				if why := h.setOptions(0); why != "" {
					v.undec = why
					return
				}
				for i := w; i < len(seqs); i += nw {
					s := seqs[i]
					v.runs++
					r := h.tokenize(s.text)
					show := fmt.Sprintf("%s tokenizer on %q", kind, s.text)
					if i%211 == 0 {
						noteSample("TOK.lexemes/"+kind, fmt.Sprintf("%q", s.text))
					}
					if r.kind == "panic" {
						v.bad = show + " panics: " + r.why
						continue
					}
					if r.kind != "ok" {
						v.undec = show + ": " + r.why
						continue
					}
					var ws []string
					for _, l := range s.want {
						ws = append(ws, fmt.Sprintf("%s(%q)", l.class, l.text))
					}
					ok := len(r.toks) == len(s.want)+1
					for j := 0; ok && j < len(s.want); j++ {
						if r.toks[j].val != s.want[j].text || !classOK(s.want[j].class, r.toks[j].typ) {
							ok = false
						}
					}
					if !ok && v.bad == "" {
						v.bad = fmt.Sprintf("%s gives [%s]; the lexemes written are [%s]", show, renderToks(r.toks), strings.Join(ws, " "))
					}
				}
			}(w)
		}
	}
	wg.Wait()
	lexMemo = res
	return res
}

func init() {
	register(&Rule{ID: "TOK.lexemes", Floor: 2,
		Doc: "the generic and the expression tokenizer evaluated abstractly over sequences of lexemes of every class (identifiers incl. Latin-1 / non-Latin starts, keywords in any case, integer, decimal and scientific numbers, quoted strings with doubled quotes, comments, whitespace runs, every single and multi-character symbol): singles, every ordered pair with a separator, pairs of unmergeable kinds without one, triples around every multi-character symbol and keyword, every single-character symbol (the dot included) between identifiers that may look like exponent parts, quoted strings whose content is, contains and ends with backslashes (ordinary content) alone and followed by lexemes of every kind: exactly those lexemes with exactly those classes come back",
		Run: func(c *Ctx) []*Obligation {
			o := newObl("TOK.lexemes")
			res := c.lexRun()
			for _, kind := range []string{"expression", "generic"} {
				v := res[kind]
				if v == nil {
					v = &simpleVerdict{}
				}
				spec := tokenizerCtors[kind]
				o.list = append(o.list, emitSimple(c, "TOK.lexemes", spec[0]+"."+strings.TrimPrefix(spec[1], "New")+"#lexemes-come-back", c.Pos(c.MustFunc(spec[0], "", spec[1]).Pos()), v, "lexeme sequences tokenize back to themselves with the right classes")...)
			}
			return o.list
		}})
}
