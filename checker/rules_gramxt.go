package main

import (
	"fmt"
	"go/types"
	"strconv"
	"strings"
	"sync"
	"unicode/utf8"
)

// ---------------------------------------------------------------------------------------------
// GRAM.parse, text entry point: renderings of token strings.
//
// The token-string families of gxFamilies say what the parser does with a sequence of tokens. A text
// is one of many ways of writing such a sequence down: with nothing between two lexemes that cannot
// merge, with one blank everywhere, with blanks, tabs, line breaks or comments in any single gap, with
// keywords in any letter case. The statements fix what all of these have in common: the program
// compiled from a rendering is the post-order of the token string's syntax tree (C01: white space,
// comments and letter case never change the result), a rendering of a non-sentence is rejected (C02),
// and a position quoted in the rejection is the forward-scan line and column, in the text as it was
// handed in, of the lexeme the reference parser stops at (C12). The oracle is the reference grammar of
// rules_gramx.go applied to the token string, plus the rune offsets the rendering itself assigns.
// ---------------------------------------------------------------------------------------------

// gxLeadingBlanks: the margin family starts texts with blank, tab, CR and LF as well. The pinned tree cut
// exactly these four characters off both ends of the text before scanning it, so every position it quoted
// for such a text was relative to the cut text (‹ 1 2› reported the 2 at column 3, ‹\n1 2› on line 1): a
// departure from the last clause of C12, found by this family and repaired in /repo (known_findings.json).
const gxLeadingBlanks = true

type gxRendering struct {
	text string
	ls   []lexeme // the token string it renders (reference input)
	offs []int    // rune offset of every lexeme in text
	how  string   // the way it is written, for the witness
}

// gxLongestSymbol: the first symbol a tokenizer with the language's operator vocabulary reads off s
// (the longest registered one; a single character otherwise).
func gxLongestSymbol(s string) string {
	best := ""
	for op := range gxOperatorType {
		if len(op) > 1 && !(op[0] >= 'A' && op[0] <= 'Z') && strings.HasPrefix(s, op) && len(op) > len(best) {
			best = op
		}
	}
	if best == "" {
		_, n := utf8.DecodeRuneInString(s)
		best = s[:n]
	}
	return best
}

func gxIsSymbol(l lexeme) bool { return l.typ == "Symbol" }

// gxNeedsBlank: two neighbouring lexemes written with nothing between them would be read as something
// else - words, keywords, numbers and literals run into each other; two symbols do when their
// concatenation starts a longer registered symbol or opens a comment; a symbol made of a character
// outside ASCII may continue a word.
func gxNeedsBlank(a, b lexeme) bool {
	as, bs := gxIsSymbol(a), gxIsSymbol(b)
	switch {
	case !as && !bs:
		return true
	case as && bs:
		if strings.HasSuffix(a.text, "/") && (b.text[0] == '*' || b.text[0] == '/') {
			return true
		}
		return gxLongestSymbol(a.text+b.text) != a.text
	case bs:
		r, _ := utf8.DecodeRuneInString(b.text)
		return r >= 0x80
	}
	return false
}

func gxKeywordCase(s string, mode int) string {
	switch mode % 3 {
	case 1:
		return strings.ToLower(s)
	case 2:
		var sb strings.Builder
		for i, r := range strings.ToLower(s) {
			if i%2 == 1 {
				sb.WriteString(strings.ToUpper(string(r)))
			} else {
				sb.WriteRune(r)
			}
		}
		return sb.String()
	}
	return s
}

// gxRender writes ls down: gaps[k] stands between ls[k-1] and ls[k] (an empty gap becomes a blank where
// the neighbours would merge; a comment is kept clear of a neighbouring slash or star), lead and trail
// surround the text, keywords are spelled in letter case kw (0 as given, 1 lower, 2 alternating).
func gxRender(ls []lexeme, gaps []string, lead, trail string, kw int, how string) gxRendering {
	var sb strings.Builder
	r := gxRendering{ls: ls, how: how}
	sb.WriteString(lead)
	n := utf8.RuneCountInString(lead)
	for i, l := range ls {
		if i > 0 {
			g := gaps[i]
			if g == "" && gxNeedsBlank(ls[i-1], l) {
				g = " "
			}
			if strings.HasPrefix(g, "/") && gxIsSymbol(ls[i-1]) && strings.ContainsAny(ls[i-1].text, "/*") {
				g = " " + g
			}
			if strings.HasSuffix(g, "/") && gxIsSymbol(l) && strings.ContainsAny(l.text, "/*") {
				g += " "
			}
			sb.WriteString(g)
			n += utf8.RuneCountInString(g)
		}
		t := l.text
		if l.typ == "Keyword" {
			t = gxKeywordCase(t, kw)
		}
		r.offs = append(r.offs, n)
		sb.WriteString(t)
		n += utf8.RuneCountInString(t)
	}
	sb.WriteString(trail)
	r.text = sb.String()
	return r
}

// what may stand in a gap without changing anything: blanks, tab, the four line breaks, the other control
// characters the tokenizer's white-space class (everything up to the blank) contains, comments
var gxGapFillers = []string{"  ", "\t", "\n", "\r\n", "/*c*/", " /*c*/ ", "\r", "\n\r", "\v", "\f", "/*x\ny*/"}

var gxCaseNames = []string{"", ", keywords in lower case", ", keywords in alternating case"}

// gxTextSources: the token strings that are rendered - those of the token-string families that consist of
// lexemes a text can express (no typed lexemes, no explicit white space), the large families sampled with a
// fixed stride in the quick tier.
func gxTextSources(fams []gxFamily, thorough bool) []string {
	stride := map[string]int{"operator-pairs": 7, "equal-level-chains": 1, "prefix-postfix-call-index-against-binary": 1, "calls-index-grouping": 1,
		"malformed": 1, "nested-calls": 9, "single-token-mutations": 6, "all-token-strings": 31}
	if thorough {
		stride = map[string]int{"operator-pairs": 3, "equal-level-chains": 1, "prefix-postfix-call-index-against-binary": 1, "calls-index-grouping": 1,
			"malformed": 1, "nested-calls": 4, "single-token-mutations": 3, "all-token-strings": 193}
	}
	var out []string
	seen := map[string]bool{}
	for _, f := range fams {
		name := f.name
		if strings.HasPrefix(name, "all-token-strings") {
			name = "all-token-strings"
		}
		st, ok := stride[name]
		if !ok {
			continue
		}
		for i, it := range f.items {
			if i%st != 0 || strings.ContainsAny(it, "~␠") || strings.Contains(it, "/*") || seen[it] {
				continue
			}
			if ls := lexemes(it); len(ls) == 0 {
				continue
			}
			seen[it] = true
			out = append(out, it)
		}
	}
	return out
}

// gxTextRenderings: every source compactly, with one blank everywhere and with every gap filled; every gap in turn
// filled while the rest is compact - for every other source with one filler per gap (rotating) in the quick tier,
// for every source with two in the thorough tier.
func gxTextRenderings(sources []string, thorough bool) []gxRendering {
	var out []gxRendering
	for idx, it := range sources {
		ls := lexemes(it)
		n := len(ls)
		empty := make([]string, n)
		out = append(out, gxRender(ls, empty, "", "", idx, "written compactly"+gxCaseNames[idx%3]))
		one := make([]string, n)
		mixed := make([]string, n)
		for k := 1; k < n; k++ {
			one[k] = " "
			mixed[k] = gxGapFillers[(idx+k)%len(gxGapFillers)]
		}
		if n > 1 {
			out = append(out, gxRender(ls, one, "", "", idx+1, "written with one blank between the lexemes"+gxCaseNames[(idx+1)%3]))
			out = append(out, gxRender(ls, mixed, "", "", idx+2, "written with white space or a comment in every gap"+gxCaseNames[(idx+2)%3]))
		}
		per := 1
		if thorough {
			per = 2
		} else if idx%2 == 1 {
			per = 0
		}
		for k := 1; k < n; k++ {
			for p := 0; p < per; p++ {
				f := gxGapFillers[(idx*3+k+p*4)%len(gxGapFillers)]
				g := make([]string, n)
				g[k] = f
				out = append(out, gxRender(ls, g, "", "", 0, fmt.Sprintf("written compactly but for %q between ‹%s› and ‹%s›", f, ls[k-1].text, ls[k].text)))
			}
		}
	}
	return out
}

// the Unicode white space that is not white space of the expression language: each is a character like any
// other that is no operator - an unknown symbol (C02: nothing is skipped), with a position of its own (C12)
var gxForeignSpaces = []string{"\u0085", "\u00a0", "\u1680", "\u2000", "\u2003", "\u2028", "\u2029", "\u202f", "\u205f", "\u3000"}

// gxMarginRenderings: white space and comments before the first and after the last lexeme, line breaks inside,
// foreign spaces at either end and in the middle of sentences and before non-sentences.
func gxMarginRenderings(thorough bool) []gxRendering {
	sentences := []string{"1 + 2", "a * ( b + c )", "f ( a , 1 )", "NOT a IS NULL", "a [ 1 ]"}
	broken := []string{"1 2", "( a + b c )", "1 + )", "f ( 1 , 2 3 )", "a [ 1 2 ]", "a IS b", "a + * b", "x y", "2 * ( 3 + 4 5 )", "a ? b"}
	leads := []string{"\v", "\f", "\v\f", "\v\n", "\f\r\n", "\f\n\r", "\v\r", "\x01", "\x1f \t", "\v \n ", "/*c*/", "/*x\ny*/ ", "\f/*c*/\n"}
	if gxLeadingBlanks {
		leads = append(leads, " ", "\t", "\n", "\r\n", "\r", "  \n  ", " \v", "\n/*c*/")
	}
	trails := []string{"", " ", "\n", "\t\r\n", "\v", "\f", " /*c*/", "\f\n", "\r"}
	var out []gxRendering
	all := append(append([]string{}, broken...), sentences...)
	k := 0
	for _, lead := range leads {
		for si, src := range all {
			if !thorough && si >= len(broken) && (k+si)%3 != 0 {
				continue // sentences carry no position: a sample of them
			}
			ls := lexemes(src)
			gaps := make([]string, len(ls))
			how := "written compactly"
			switch k % 3 {
			case 1:
				for j := 1; j < len(ls); j++ {
					gaps[j] = " "
				}
				how = "written with one blank between the lexemes"
			case 2:
				if len(ls) > 1 {
					j := 1 + k%(len(ls)-1)
					gaps[j] = []string{"\n", "\r\n", "\n  ", "\r", " \n\r"}[k%5]
					how = fmt.Sprintf("written compactly but for %q before ‹%s›", gaps[j], ls[j].text)
				}
			}
			trail := trails[k%len(trails)]
			k++
			out = append(out, gxRender(ls, gaps, lead, trail, 0, fmt.Sprintf("%s, after %q and before %q", how, lead, trail)))
		}
	}
	// trailing white space alone
	for ti, trail := range trails[1:] {
		for si, src := range broken {
			if (ti+si)%2 == 0 || thorough {
				ls := lexemes(src)
				gaps := make([]string, len(ls))
				for j := 1; j < len(ls); j++ {
					gaps[j] = " "
				}
				out = append(out, gxRender(ls, gaps, "", trail, 0, fmt.Sprintf("written with one blank between the lexemes and %q after the last", trail)))
			}
		}
	}
	// foreign spaces
	for ui, u := range gxForeignSpaces {
		sym := lexeme{u, "Symbol"}
		for si, src := range all {
			ls := lexemes(src)
			var places []int
			if si < len(broken) {
				places = []int{0} // before a non-sentence: the first offending token whatever follows
			} else {
				places = []int{0, len(ls), 1 + (ui+si)%(len(ls)-1)}
			}
			for _, p := range places {
				if !thorough && (ui+si+p)%2 == 1 && p != 0 {
					continue
				}
				with := append(append(append([]lexeme{}, ls[:p]...), sym), ls[p:]...)
				for variant := 0; variant < 3; variant++ {
					gaps := make([]string, len(with))
					how := "written compactly"
					switch variant {
					case 1:
						for j := 1; j < len(with); j++ {
							gaps[j] = " "
						}
						how = "written with one blank between the lexemes"
					case 2:
						if p == 0 {
							continue
						}
						gaps[p] = "\n"
						how = "written compactly but for a line break before it"
					}
					if variant != 0 && !thorough && (ui+si)%3 != 0 {
						continue
					}
					out = append(out, gxRender(with, gaps, "", "", 0, fmt.Sprintf("with U+%04X as lexeme %d, %s", []rune(u)[0], p+1, how)))
				}
			}
		}
	}
	return out
}

// ---- running texts ---------------------------------------------------------------------------------

type gxTextRunner struct {
	c      *Ctx
	m      *mach
	parser mv
	pt     types.Type
	hx     *gxHarness // function handles and type names only (shared, read-only)
	fault  string
}

func (c *Ctx) newGxTextRunner(hx *gxHarness) *gxTextRunner {
	r := &gxTextRunner{c: c, m: newMach(c), hx: hx}
	r.m.maxSteps = 6000000 // the longest returning texts of the quick tier take about 70000 steps
	ctor := c.MustFunc(pkgParsers, "", "NewExpressionParser")
	r.pt = resultType(ctor)
	p, o := r.m.Call(ctor)
	if o.kind != "ok" {
		r.fault = "NewExpressionParser: " + o.why
	}
	if hx.fault != "" {
		r.fault = hx.fault
	}
	r.parser = p
	return r
}

type gxTextOutcome struct {
	kind  string // "accept", "reject", "panic", "opaque", "nonterm" (the whole step budget used up)
	code  string
	msg   string
	why   string
	types []string // accepted: the token types of the compiled program
	steps int      // abstract steps of the ParseString call ("nonterm": the budget it used up)
}

func (r *gxTextRunner) parse(text string) gxTextOutcome {
	if r.fault != "" {
		return gxTextOutcome{kind: "opaque", why: r.fault}
	}
	r.m.steps = 0
	errv, o := callM(r.c, r.m, r.pt, "ParseString", r.parser, text)
	used := r.m.steps
	switch {
	case gxOutOfBudget(o):
		return gxTextOutcome{kind: "nonterm", why: o.why, steps: r.m.maxSteps}
	case o.kind == "panic":
		return gxTextOutcome{kind: "panic", why: o.why}
	case o.kind != "ok":
		return gxTextOutcome{kind: "opaque", why: o.why}
	}
	if _, isNil := errv.(mNilT); !isNil {
		return gxTextOutcome{kind: "reject", code: errorCode(errv), msg: errorField(errv, "Message"), steps: used}
	}
	res := gxTextOutcome{kind: "accept", steps: used}
	rv, o := r.m.Call(r.hx.resultTokens, r.parser)
	if o.kind != "ok" {
		return gxTextOutcome{kind: "opaque", why: "ResultTokens: " + o.why}
	}
	if sl, ok := rv.(mSlice); ok {
		tokT := r.hx.resultTokens.Signature.Results().At(0).Type().Underlying().(*types.Slice).Elem()
		f := r.c.lookupMethod(tokT, "Type")
		if f == nil {
			return gxTextOutcome{kind: "opaque", why: "accessor Type not found"}
		}
		for _, t := range sl.arr {
			ty, o := r.m.Call(f, t)
			tn, ok := ty.(int64)
			if o.kind != "ok" || !ok {
				return gxTextOutcome{kind: "opaque", why: "a result token has an undetermined type"}
			}
			name := r.hx.etNames[tn]
			if name == "" {
				name = fmt.Sprintf("#%d", tn)
			}
			res.types = append(res.types, name)
		}
	}
	return res
}

// gxShowLexeme: a lexeme as the witness prints it (characters outside ASCII escaped: a Kelvin sign looks like a K).
func gxShowLexeme(s string) string {
	q := strconv.QuoteToASCII(s)
	return q[1 : len(q)-1]
}

func gxTypesOf(rpn []string) []string {
	var out []string
	for _, w := range rpn {
		out = append(out, w[:strings.IndexAny(w, "@#")])
	}
	return out
}

type gxTextJudgement struct {
	treeBad, langBad, posBad, undec string
	positioned, sentence            bool
	steps                           int    // of a parse that returned
	nonterm, ntWhy                  string // a parse that used up its budget (judged against the family's longest returning one)
	budget                          int
}

// gxSettleNonTermination: the runs of a family that used up their budget, judged once the longest returning
// parse of the family is known.
func gxSettleNonTermination(js []gxTextJudgement) {
	maxReturning := 0
	for _, j := range js {
		if j.steps > maxReturning {
			maxReturning = j.steps
		}
	}
	for i := range js {
		if j := &js[i]; j.nonterm != "" {
			bad, undec := gxNonTermination(j.nonterm, j.ntWhy, j.budget, maxReturning)
			if j.langBad == "" {
				j.langBad = bad
			}
			j.undec = undec
		}
	}
}

// gxJudgeText compares what ParseString did with a rendering with what the reference grammar says about the
// token string it renders.
func gxJudgeText(rd gxRendering, got gxTextOutcome) gxTextJudgement {
	var j gxTextJudgement
	acc, want := gxReference(rd.ls)
	j.sentence = acc
	var toks []string
	for _, l := range rd.ls {
		toks = append(toks, gxShowLexeme(l.text))
	}
	show := fmt.Sprintf("ParseString(%+q) [the token string ‹%s› %s]", rd.text, strings.Join(toks, " "), rd.how)
	wantT := strings.Join(gxTypesOf(want), " ")
	if got.kind == "accept" || got.kind == "reject" {
		j.steps = got.steps
	}
	switch got.kind {
	case "opaque":
		j.undec = show + ": " + got.why
	case "nonterm":
		j.nonterm, j.ntWhy, j.budget = show, got.why, got.steps
	case "panic":
		j.langBad = fmt.Sprintf("%s panics (%s) instead of returning a syntax error or a program", show, got.why)
	case "accept":
		gotT := strings.Join(got.types, " ")
		if !acc {
			j.langBad = fmt.Sprintf("%s is accepted and compiled to [%s]; the token string is not a sentence of the grammar: lexemes are skipped, merged or read as something else", show, gotT)
		} else if gotT != wantT {
			j.treeBad = fmt.Sprintf("%s compiles to [%s]; the post-order of the token string's syntax tree is [%s] (spacing, comments and keyword letter case do not change the tree)", show, gotT, wantT)
		}
	case "reject":
		if acc {
			j.langBad = fmt.Sprintf("%s is rejected with %s %q; the token string is a sentence of the grammar (post-order [%s])", show, got.code, got.msg, wantT)
			j.treeBad = fmt.Sprintf("%s is rejected with %s %q instead of being compiled to [%s], the post-order of the token string's syntax tree: the way an expression is spaced, commented and cased must not change the result", show, got.code, got.msg, wantT)
			break
		}
		if got.code == "" {
			j.langBad = fmt.Sprintf("%s is rejected with an error that carries no code", show)
		}
		if mm := reErrorAt.FindStringSubmatch(got.msg); mm != nil {
			if fc := gxReferenceFail(rd.ls); fc > 0 {
				j.positioned = true
				lines, cols := refPositions(rd.text)
				wl, wc := lines[rd.offs[fc-1]], cols[rd.offs[fc-1]]
				if mm[1] != fmt.Sprint(wl) || mm[2] != fmt.Sprint(wc) {
					j.posBad = fmt.Sprintf("%s is rejected with %q; the offending token (the first one no sentence continues with) is ‹%s›, character %d of the text: line %d, column %d in a forward scan", show, got.msg, gxShowLexeme(rd.ls[fc-1].text), rd.offs[fc-1]+1, wl, wc)
				}
			}
		}
	}
	return j
}

// gxRunTexts spreads the renderings of one family over workers (each with a machine and a parser of its own).
func (c *Ctx) gxRunTexts(name string, rends []gxRendering, hx *gxHarness) *gxFamVerdict {
	fv := &gxFamVerdict{fam: gxFamily{name: name}}
	nw := 8
	if len(rends) < 64 {
		nw = 1
	}
	js := make([]gxTextJudgement, len(rends))
	var wg sync.WaitGroup
	for w := 0; w < nw; w++ {
		wg.Add(1)
		go func(w int) {
			defer wg.Done()
			r := c.newGxTextRunner(hx)
			for i := w; i < len(rends); i += nw {
				noteSample("GRAM.parse/"+name, fmt.Sprintf("%+q", rends[i].text))
				js[i] = gxJudgeText(rends[i], r.parse(rends[i].text))
			}
		}(w)
	}
	wg.Wait()
	gxSettleNonTermination(js)
	for _, j := range js {
		fv.v.runs++
		if j.sentence {
			fv.v.sentences++
		}
		if j.positioned {
			fv.v.positions++
		}
		first := func(dst *string, s string) {
			if s != "" && *dst == "" {
				*dst = s
			}
		}
		first(&fv.v.treeBad, j.treeBad)
		first(&fv.v.langBad, j.langBad)
		first(&fv.v.posBad, j.posBad)
		first(&fv.v.undec, j.undec)
	}
	return fv
}

// ---- words that resemble keywords --------------------------------------------------------------------

// A keyword is recognised in any letter case. A word that contains KELVIN SIGN (U+212A) is not a case variant
// of a keyword with K: it is an identifier, as a plain operand and where an operator is expected (a stray
// word in place of a keyword is an error). For the characters whose case mappings do land on a keyword's
// letter - dotless ı and dotted İ (upper / lower case I, i), long ſ (upper case S) - the statements do not
// say which of the two they are; whichever it is, it is the same everywhere: a word is read as the keyword
// in every position or as an identifier in every position, never as the one by the tokenizer and as the
// other, or as nothing, by the parser.
type gxLookalike struct {
	word, keyword string
	identifier    bool // decided: an identifier
}

func gxLookalikes() []gxLookalike {
	subst := map[rune][]string{'K': {"\u212a"}, 'I': {"\u0131", "\u0130"}, 'S': {"\u017f"}}
	var out []gxLookalike
	for _, kw := range []string{"AND", "OR", "XOR", "NOT", "IS", "IN", "NULL", "LIKE", "TRUE", "FALSE"} {
		for p, r := range kw {
			if p == 0 {
				continue // the first character decides which tokenizer state reads the word: not a question of letter case
			}
			for _, s := range subst[r] {
				out = append(out,
					gxLookalike{kw[:p] + s + kw[p+1:], kw, s == "\u212a"},
					gxLookalike{strings.ToLower(kw[:p]) + s + strings.ToLower(kw[p+1:]), kw, s == "\u212a"})
			}
		}
	}
	return out
}

var gxLookalikeFrames = []string{"§ + 1", "a § b", "a NOT § b", "a § NULL", "a § NOT NULL", "a IS §", "a IS NOT §", "§ a", "a AND §", "§", "f ( § )", "a = §", "a [ § ]", "( § )"}

func (c *Ctx) gxRunLookalikes(hx *gxHarness) *gxFamVerdict {
	fv := &gxFamVerdict{fam: gxFamily{name: "text-keyword-lookalikes"}}
	r := c.newGxTextRunner(hx)
	var timed []gxTextJudgement // steps of the returning runs, and the runs that used up their budget
	for _, la := range gxLookalikes() {
		// first departure under each reading: [0] identifier, [1] keyword
		var tree, lang [2]string
		for fi, frame := range gxLookalikeFrames {
			var ls [2][]lexeme
			var slot int
			for i, f := range strings.Split(frame, " ") {
				if f == "§" {
					slot = i
					ls[0] = append(ls[0], lexeme{la.word, "Word"})
					ls[1] = append(ls[1], lexeme{la.keyword, "Keyword"})
					continue
				}
				ls[0] = append(ls[0], lexemeOf(f))
				ls[1] = append(ls[1], lexemeOf(f))
			}
			gaps := make([]string, len(ls[0]))
			how := "written compactly"
			if fi%2 == 0 {
				for k := 1; k < len(gaps); k++ {
					gaps[k] = " "
				}
				how = "written with one blank between the lexemes"
			}
			rd := gxRender(ls[0], gaps, "", "", 0, how)
			noteSample("GRAM.parse/text-keyword-lookalikes", fmt.Sprintf("%+q", rd.text))
			got := r.parse(rd.text)
			fv.v.runs++
			for reading := 0; reading < 2; reading++ {
				rr := rd
				rr.ls = ls[reading]
				rr.how = fmt.Sprintf("%s, ‹%s› (lexeme %d) read as %s", how, gxShowLexeme(la.word), slot+1, []string{"an identifier", "the keyword " + la.keyword}[reading])
				j := gxJudgeText(rr, got)
				if reading == 0 {
					timed = append(timed, gxTextJudgement{steps: j.steps, nonterm: j.nonterm, ntWhy: j.ntWhy, budget: j.budget})
				}
				if j.undec != "" && fv.v.undec == "" {
					fv.v.undec = j.undec
				}
				if tree[reading] == "" {
					tree[reading] = j.treeBad
				}
				if lang[reading] == "" {
					lang[reading] = j.langBad
				}
			}
		}
		set := func(dst *string, s string) {
			if *dst == "" {
				*dst = s
			}
		}
		bad := func(k int) bool { return tree[k] != "" || lang[k] != "" }
		switch {
		case la.identifier && bad(0):
			set(&fv.v.treeBad, tree[0])
			set(&fv.v.langBad, lang[0])
		case !la.identifier && bad(0) && bad(1):
			both := fmt.Sprintf("‹%s› is read neither as an identifier nor as the keyword %s in every position. As an identifier: %s. As the keyword: %s", gxShowLexeme(la.word), la.keyword, joinNonEmpty(" ", lang[0], tree[0]), joinNonEmpty(" ", lang[1], tree[1]))
			if lang[0] != "" || lang[1] != "" {
				set(&fv.v.langBad, both)
			} else {
				set(&fv.v.treeBad, both)
			}
		}
	}
	// identifier or keyword, the parser returns
	gxSettleNonTermination(timed)
	for _, j := range timed {
		if j.langBad != "" && fv.v.langBad == "" {
			fv.v.langBad = j.langBad
		}
		if j.undec != "" && fv.v.undec == "" {
			fv.v.undec = j.undec
		}
	}
	return fv
}

// gxTextFamilies: the families of the text entry point built on renderings.
func (c *Ctx) gxTextFamilies(fams []gxFamily) []*gxFamVerdict {
	thorough := c.Tier == "thorough"
	hx := c.newGxHarness()
	return []*gxFamVerdict{
		c.gxRunTexts("text-renderings", gxTextRenderings(gxTextSources(fams, thorough), thorough), hx),
		c.gxRunTexts("text-margins", gxMarginRenderings(thorough), hx),
		c.gxRunLookalikes(hx),
	}
}
