package main

import (
	"fmt"
	"go/ast"
	"go/parser"
	"go/token"
	"go/types"
	"os"

	"golang.org/x/tools/go/ssa"
	"golang.org/x/tools/go/ssa/ssautil"
)

// DIM.bytechar — a byte of a UTF-8 string used as a character.
//
// s[i] on a string yields a byte. Turning that byte into a rune (rune(s[0])) and treating it as a
// character is right only for ASCII text: for any other text it is the first byte of a multi-byte
// sequence. The library promises non-ASCII symbols, separators, quotes and names, so no such
// conversion may exist. The expected count is zero; a tiny positive example compiled on every run
// proves that the matcher still matches.

func init() {
	register(&Rule{ID: "DIM.bytechar", Floor: 1,
		Doc: "no byte taken from a string by indexing (s[i]) is converted to a rune and used as a character — for non-ASCII text that is a fragment of a multi-byte sequence (symbols, quotes, separators and names may be non-ASCII); the matcher is exercised on a built-in positive example on every run",
		Run: ruleDimByteChar})
}

// byteCharSites: conversions byte → rune whose operand is a string index expression.
func byteCharSites(fn *ssa.Function) []*ssa.Convert {
	var out []*ssa.Convert
	for _, b := range fn.Blocks {
		for _, in := range b.Instrs {
			cv, ok := in.(*ssa.Convert)
			if !ok {
				continue
			}
			to, ok := cv.Type().Underlying().(*types.Basic)
			if !ok || to.Kind() != types.Int32 {
				continue
			}
			var coll ssa.Value
			switch x := cv.X.(type) {
			case *ssa.Lookup:
				coll = x.X
			case *ssa.Index:
				coll = x.X
			}
			if coll == nil {
				continue
			}
			if st, ok := coll.Type().Underlying().(*types.Basic); ok && st.Info()&types.IsString != 0 {
				out = append(out, cv)
			}
		}
	}
	return out
}

func ruleDimByteChar(c *Ctx) []*Obligation {
	o := newObl("DIM.bytechar")
	// self-test: the matcher must find the one site of this snippet
	{
		const src = "package p\nfunc first(s string) rune { return rune(s[0]) }\n"
		fset := token.NewFileSet()
		f, err := parser.ParseFile(fset, "selftest.go", src, 0)
		n := 0
		if err == nil {
			pkg := types.NewPackage("selftest", "p")
			sp, _, err2 := ssautil.BuildPackage(&types.Config{}, fset, pkg, []*ast.File{f}, 0)
			if err2 == nil {
				if fn := sp.Func("first"); fn != nil {
					n = len(byteCharSites(fn))
				}
			} else {
				fmt.Fprintln(os.Stderr, "selftest build:", err2)
			}
		}
		if n != 1 {
			fmt.Fprintf(os.Stderr, "DIM.bytechar selftest: parse err=%v n=%d\n", err, n)
		}
		if n == 1 {
			o.triv("selftest#positive-example", "-", "the matcher finds rune(s[0]) in the built-in example")
		} else {
			o.undecided("selftest#positive-example", "-", "the matcher no longer finds rune(s[0]) in the built-in example")
		}
	}
	for _, fn := range c.AllLibFuncs() {
		ex := c.newExpr(fn)
		for i, cv := range byteCharSites(fn) {
			key := fmt.Sprintf("%s#byte-as-character#%d", c.FuncKey(fn), i+1)
			o.bad(key, c.Pos(cv.Pos()), "the byte "+ex.str(cv.X)+" of a UTF-8 string is converted to a rune and used as a character: for text that does not start with an ASCII character this is a fragment of a multi-byte sequence")
		}
	}
	return o.list
}
