package main

import (
	"fmt"
	"go/token"
	"go/types"
	"sort"
	"strings"

	"golang.org/x/tools/go/callgraph"
	"golang.org/x/tools/go/ssa"
)

// ---------------------------------------------------------------------------------------------
// PURE / STATE — effect analysis with freshness (C19, C05)
// ---------------------------------------------------------------------------------------------

// effects engine: which memory may a function write, and is that memory fresh (allocated during the
// analysed operation) or shared (reachable by the caller / other evaluations)?
type effectEngine struct {
	c          *Ctx
	region     map[*ssa.Function]bool
	entries    map[*ssa.Function]bool
	freshParam map[*ssa.Parameter]bool
	allocator  map[*ssa.Function]bool // every returned pointer/slice/map is freshly allocated
	inEdges    map[*ssa.Function][]*callgraph.Edge
	owned      map[string]bool
	freshBusy  map[ssa.Value]bool
}

func (c *Ctx) regionFrom(roots []*ssa.Function, stop map[*ssa.Function]bool) map[*ssa.Function]bool {
	cg := c.CallGraph()
	seen := map[*ssa.Function]bool{}
	var walk func(f *ssa.Function)
	walk = func(f *ssa.Function) {
		if f == nil || seen[f] || !c.InModule(f) || f.Blocks == nil || stop[f] {
			return
		}
		seen[f] = true
		for _, a := range f.AnonFuncs {
			walk(a)
		}
		if n := cg.Nodes[f]; n != nil {
			for _, e := range n.Out {
				walk(e.Callee.Func)
			}
		}
	}
	for _, r := range roots {
		walk(r)
	}
	return seen
}

func (c *Ctx) newEffectEngine(roots []*ssa.Function) *effectEngine {
	return c.newEffectEngineStop(roots, nil)
}

func (c *Ctx) newEffectEngineStop(roots []*ssa.Function, stop map[*ssa.Function]bool) *effectEngine {
	e := &effectEngine{c: c, region: c.regionFrom(roots, stop), entries: map[*ssa.Function]bool{}, freshParam: map[*ssa.Parameter]bool{}, allocator: map[*ssa.Function]bool{}, inEdges: map[*ssa.Function][]*callgraph.Edge{}, owned: map[string]bool{}}
	for _, r := range roots {
		e.entries[r] = true
	}
	cg := c.CallGraph()
	for f := range e.region {
		if n := cg.Nodes[f]; n != nil {
			for _, ed := range n.In {
				if e.region[ed.Caller.Func] {
					e.inEdges[f] = append(e.inEdges[f], ed)
				}
			}
		}
	}
	// allocators: module-wide optimistic fixpoint
	for _, f := range c.AllLibFuncs() {
		if f.Signature.Results().Len() >= 1 && isPointerLike(f.Signature.Results().At(0).Type()) {
			e.allocator[f] = true
		}
	}
	// optimistic start for parameters
	for f := range e.region {
		for _, p := range f.Params {
			e.freshParam[p] = !e.entries[f] && len(e.inEdges[f]) > 0
		}
	}
	for changed := true; changed; {
		changed = false
		for f := range e.allocator {
			if !e.allocator[f] {
				continue
			}
			for _, ret := range returnsOf(f) {
				if f.Recover != nil && ret.Block() == f.Recover {
					continue
				}
				if !e.fresh(ret.Results[0], 6) {
					e.allocator[f] = false
					changed = true
					break
				}
			}
		}
		for f := range e.region {
			for pi, p := range f.Params {
				if !e.freshParam[p] {
					continue
				}
				for _, ed := range e.inEdges[f] {
					arg := edgeArg(ed, pi)
					if arg == nil || !e.fresh(arg, 6) {
						e.freshParam[p] = false
						changed = true
						break
					}
				}
			}
		}
	}
	return e
}

// ownedField: every store to this struct field stores a freshly allocated value, or a value derived
// (append / reslice) from the same field of the same object.
func (e *effectEngine) ownedField(fa *ssa.FieldAddr) bool {
	key := fa.X.Type().String() + "#" + fieldName(fa.X.Type(), fa.Field)
	if v, ok := e.owned[key]; ok {
		return v
	}
	e.owned[key] = true // optimistic (inductive)
	good := true
	for _, fn := range e.c.AllLibFuncs() {
		for _, b := range fn.Blocks {
			for _, in := range b.Instrs {
				st, ok := in.(*ssa.Store)
				if !ok {
					continue
				}
				fa2, ok := st.Addr.(*ssa.FieldAddr)
				if !ok || fa2.Field != fa.Field || !types.Identical(fa2.X.Type(), fa.X.Type()) {
					continue
				}
				if !e.ownedValue(st.Val, fa2, 5) {
					good = false
				}
			}
		}
	}
	e.owned[key] = good
	return good
}

// ownedValue: v is fresh memory, or derived from the same field of the same object as `self`.
func (e *effectEngine) ownedValue(v ssa.Value, self *ssa.FieldAddr, depth int) bool {
	if depth == 0 {
		return false
	}
	switch x := v.(type) {
	case *ssa.UnOp:
		if fa, ok := x.X.(*ssa.FieldAddr); ok && x.Op == token.MUL && fa.Field == self.Field && fa.X == self.X {
			return true
		}
	case *ssa.Slice:
		return e.ownedValue(x.X, self, depth-1)
	case *ssa.Call:
		if bi, ok := x.Call.Value.(*ssa.Builtin); ok && bi.Name() == "append" {
			return e.ownedValue(x.Call.Args[0], self, depth-1)
		}
	case *ssa.Phi:
		for _, ed := range x.Edges {
			if !e.ownedValue(ed, self, depth-1) {
				return false
			}
		}
		return true
	}
	// plain freshness without parameter assumptions
	switch v.(type) {
	case *ssa.Alloc, *ssa.MakeSlice, *ssa.MakeMap:
		return true
	case *ssa.Const:
		return true
	}
	if sl, ok := v.(*ssa.Slice); ok {
		if _, isAlloc := sl.X.(*ssa.Alloc); isAlloc {
			return true
		}
	}
	return false
}

// edgeArg maps callee parameter #pi to the caller's argument at a call-graph edge.
func edgeArg(ed *callgraph.Edge, pi int) ssa.Value {
	if ed.Site == nil {
		return nil
	}
	cc := ed.Site.Common()
	if cc.IsInvoke() {
		if pi == 0 {
			return cc.Value
		}
		if pi-1 < len(cc.Args) {
			return cc.Args[pi-1]
		}
		return nil
	}
	// dynamic call of a bound method closure etc. is not modelled precisely
	if pi < len(cc.Args) {
		if len(cc.Args) == len(ed.Callee.Func.Params) {
			return cc.Args[pi]
		}
	}
	return nil
}

// fresh: v denotes memory allocated during the analysed operation.
func (e *effectEngine) fresh(v ssa.Value, depth int) bool {
	if depth == 0 {
		return false
	}
	// values that flow around a loop (a local stack that is appended to and re-sliced): a value met again
	// while it is being decided is fresh exactly if everything else that flows into the cycle is
	if _, isPhi := v.(*ssa.Phi); isPhi {
		if e.freshBusy == nil {
			e.freshBusy = map[ssa.Value]bool{}
		}
		if e.freshBusy[v] {
			return true
		}
		e.freshBusy[v] = true
		defer delete(e.freshBusy, v)
		depth += 2
	}
	switch x := v.(type) {
	case *ssa.Alloc, *ssa.MakeSlice, *ssa.MakeMap, *ssa.MakeClosure, *ssa.MakeChan:
		return true
	case *ssa.Const:
		return true // nil / constants denote no shared memory
	case *ssa.MakeInterface:
		if !isPointerLike(x.X.Type()) {
			return true
		}
		return e.fresh(x.X, depth-1)
	case *ssa.ChangeType:
		return e.fresh(x.X, depth-1)
	case *ssa.ChangeInterface:
		return e.fresh(x.X, depth-1)
	case *ssa.Convert:
		return true // conversions to string / []rune / numbers allocate or copy
	case *ssa.Slice:
		return e.fresh(x.X, depth-1)
	case *ssa.FieldAddr:
		return e.fresh(x.X, depth-1)
	case *ssa.IndexAddr:
		return e.fresh(x.X, depth-1)
	case *ssa.Phi:
		for _, ed := range x.Edges {
			if ed == v {
				continue
			}
			if !e.fresh(ed, depth-1) {
				return false
			}
		}
		return true
	case *ssa.Parameter:
		return e.freshParam[x]
	case *ssa.FreeVar:
		// captured variable of a closure: fresh if the binding in the parent is
		fn := x.Parent()
		for i, fv := range fn.FreeVars {
			if fv == x {
				if par := fn.Parent(); par != nil {
					for _, b := range par.Blocks {
						for _, in := range b.Instrs {
							if mc, ok := in.(*ssa.MakeClosure); ok && mc.Fn == fn {
								return e.fresh(mc.Bindings[i], depth-1)
							}
						}
					}
				}
			}
		}
		return false
	case *ssa.UnOp:
		// a slice/map held in a field of a fresh object is owned by that object if every store to the
		// field (module-wide) stores memory the object owns
		if x.Op == token.MUL {
			if fa, ok := x.X.(*ssa.FieldAddr); ok && e.fresh(fa.X, depth-1) && e.ownedField(fa) {
				return true
			}
		}
		return false
	case *ssa.Extract:
		if call, ok := x.Tuple.(*ssa.Call); ok {
			return e.callResultFresh(call, x.Index, depth-1)
		}
	case *ssa.Call:
		if bi, ok := x.Call.Value.(*ssa.Builtin); ok {
			if bi.Name() == "append" {
				return e.fresh(x.Call.Args[0], depth-1)
			}
			return false
		}
		return e.callResultFresh(x, 0, depth-1)
	}
	return false
}

func (e *effectEngine) callResultFresh(call *ssa.Call, idx int, depth int) bool {
	if idx != 0 {
		return true // companion results (errors, ok flags) are freshly built values
	}
	if g := call.Call.StaticCallee(); g != nil {
		if e.c.InModule(g) {
			return e.allocator[g]
		}
		// external constructors returning values / fresh memory
		if o := g.Object(); o != nil && o.Pkg() != nil {
			p := o.Pkg().Path()
			if p == "strings" || p == "strconv" || p == "time" || p == "math" || strings.HasSuffix(p, "pip-services3-commons-gox/errors") || strings.HasSuffix(p, "pip-services3-commons-gox/convert") {
				return true
			}
		}
		return false
	}
	if call.Call.IsInvoke() {
		impls := e.c.implsOfMethod(call.Call.Method)
		if len(impls) == 0 {
			return false
		}
		for _, m := range impls {
			f := e.c.Prog.FuncValue(m)
			if f == nil || !e.allocator[f] {
				return false
			}
		}
		return true
	}
	return false
}

type writeSite struct {
	fn   *ssa.Function
	pos  token.Pos
	what string // description of the written location
	kind string // "field", "global", "element", "map", "append", "copy", "external"
	key  string // stable construct fragment
}

// rootOf strips FieldAddr/IndexAddr to the pointer the address is derived from.
func rootOf(addr ssa.Value) ssa.Value {
	for {
		switch x := addr.(type) {
		case *ssa.FieldAddr:
			addr = x.X
		case *ssa.IndexAddr:
			addr = x.X
		default:
			return addr
		}
	}
}

func describeAddr(addr ssa.Value) string {
	switch x := addr.(type) {
	case *ssa.FieldAddr:
		t := x.X.Type()
		if p, ok := t.Underlying().(*types.Pointer); ok {
			t = p.Elem()
		}
		return shortType(t) + "." + fieldName(x.X.Type(), x.Field)
	case *ssa.IndexAddr:
		return "element of " + describeAddrBase(x.X)
	case *ssa.Global:
		return "global " + x.Name()
	}
	return shortType(addr.Type())
}

func describeAddrBase(v ssa.Value) string {
	if ld, ok := v.(*ssa.UnOp); ok {
		return describeAddr(ld.X)
	}
	return shortType(v.Type())
}

// sharedWrites lists every write in the region whose target is not fresh.
func (e *effectEngine) sharedWrites() []writeSite {
	var out []writeSite
	var fns []*ssa.Function
	for f := range e.region {
		fns = append(fns, f)
	}
	sort.Slice(fns, func(i, j int) bool { return e.c.FuncKey(fns[i]) < e.c.FuncKey(fns[j]) })
	onceInit := e.c.onceInitialisers()
	for _, f := range fns {
		if onceInit[f] {
			continue // lazy initialisation under sync.Once: not a write of the evaluation (PURE.global judges it)
		}
		for _, b := range f.Blocks {
			for _, in := range b.Instrs {
				switch x := in.(type) {
				case *ssa.Store:
					root := rootOf(x.Addr)
					if _, isG := root.(*ssa.Global); isG {
						out = append(out, writeSite{f, x.Pos(), describeAddr(x.Addr), "global", "store:" + describeAddr(x.Addr)})
						continue
					}
					if ld, ok := root.(*ssa.UnOp); ok && ld.Op == token.MUL {
						if _, isG := rootOf(ld.X).(*ssa.Global); isG {
							out = append(out, writeSite{f, x.Pos(), describeAddr(x.Addr) + " of a package-level object", "global", "store-via-global:" + describeAddr(x.Addr)})
							continue
						}
					}
					if e.fresh(root, 6) {
						continue
					}
					out = append(out, writeSite{f, x.Pos(), describeAddr(x.Addr), "field", "store:" + describeAddr(x.Addr)})
				case *ssa.MapUpdate:
					if !e.fresh(x.Map, 6) {
						out = append(out, writeSite{f, x.Pos(), "map " + shortType(x.Map.Type()), "map", "mapupdate:" + shortType(x.Map.Type())})
					}
				case *ssa.Call:
					if bi, ok := x.Call.Value.(*ssa.Builtin); ok {
						switch bi.Name() {
						case "append":
							if !e.fresh(x.Call.Args[0], 6) && !isNilConst(x.Call.Args[0]) {
								// appending to a shared slice may write into its spare capacity
								if cap0(x.Call.Args[0]) {
									continue
								}
								out = append(out, writeSite{f, x.Pos(), "spare capacity of " + describeAddrBase(x.Call.Args[0]), "append", "append:" + describeAddrBase(x.Call.Args[0])})
							}
						case "copy":
							if !e.fresh(x.Call.Args[0], 6) {
								out = append(out, writeSite{f, x.Pos(), "copy into " + describeAddrBase(x.Call.Args[0]), "copy", "copy:" + describeAddrBase(x.Call.Args[0])})
							}
						case "delete":
							if !e.fresh(x.Call.Args[0], 6) {
								out = append(out, writeSite{f, x.Pos(), "delete from map", "map", "delete"})
							}
						}
					}
				case *ssa.Go:
					out = append(out, writeSite{f, x.Pos(), "goroutine start", "external", "go"})
				case *ssa.Send:
					out = append(out, writeSite{f, x.Pos(), "channel send", "external", "send"})
				}
			}
		}
	}
	return out
}

// cap0: the slice expression has no spare capacity by construction (s[:n:n]).
func cap0(v ssa.Value) bool {
	if sl, ok := v.(*ssa.Slice); ok && sl.Max != nil && sl.High != nil {
		return sl.Max == sl.High
	}
	return false
}

// externalCallees lists non-module functions called from the region that are outside the reviewed table.
var reviewedExternalPkgs = map[string]string{
	"strings": "pure string functions; Builder methods act on a local builder", "strconv": "pure", "math": "pure", "math/rand": "top-level functions are synchronised",
	"time": "Now reads the clock; values are immutable", "unicode": "pure", "unicode/utf8": "pure", "fmt": "formatting only", "errors": "allocates",
	"bytes": "pure functions on byte slices they do not write (the Buffer methods act on a local buffer)", "unicode/utf16": "pure", "math/bits": "pure", "cmp": "pure",
}

// single functions of packages that are not reviewed as a whole
var reviewedExternalFuncs = map[string]string{
	"reflect.DeepEqual": "reads its arguments only",
	"reflect.TypeOf":    "reads its argument only",
	// read-only helpers of packages that also have mutating members
	"slices.Contains": "reads", "slices.ContainsFunc": "reads", "slices.Index": "reads", "slices.IndexFunc": "reads", "slices.Equal": "reads",
	"slices.Clone": "allocates", "slices.BinarySearch": "reads", "slices.BinarySearchFunc": "reads", "slices.Max": "reads", "slices.Min": "reads",
	"maps.Keys": "reads", "maps.Values": "reads", "maps.Clone": "allocates",
	"sort.Search": "reads", "sort.SearchInts": "reads", "sort.SearchStrings": "reads", "sort.SearchFloat64s": "reads", "sort.IsSorted": "reads", "sort.SliceIsSorted": "reads",
	// synchronisation: Once.Do runs an initialiser at most once, before any reader gets past it (what it writes is
	// initialisation, see PURE.global); locks write nothing but themselves
	"sync.Do": "initialiser, run once under the Once's own synchronisation", "sync.Lock": "lock", "sync.Unlock": "lock", "sync.RLock": "lock", "sync.RUnlock": "lock",
}

func (e *effectEngine) unreviewedExternals() []string {
	seen := map[string]bool{}
	for f := range e.region {
		for _, ci := range allCalls(f) {
			g := ci.Common().StaticCallee()
			if g == nil || e.c.InModule(g) || g.Object() == nil || g.Object().Pkg() == nil {
				continue
			}
			p := g.Object().Pkg().Path()
			if _, ok := reviewedExternalPkgs[p]; ok {
				continue
			}
			if reviewedExternalFuncs[p+"."+g.Name()] != "" {
				continue
			}
			if strings.HasSuffix(p, "pip-services3-commons-gox/errors") || strings.HasSuffix(p, "pip-services3-commons-gox/convert") {
				continue
			}
			seen[p+"."+g.Name()] = true
		}
	}
	var out []string
	for k := range seen {
		out = append(out, k)
	}
	sort.Strings(out)
	return out
}

func init() {
	register(&Rule{ID: "PURE.eval", Floor: 30,
		Doc: "effect analysis of everything reachable from Evaluate* / EvaluateWithVariables: every store, map update, append-into-capacity and copy targets memory allocated during that evaluation (fresh allocation, verified allocator result, or a parameter that is fresh at every call edge); nothing reachable from the compiled program, the variables, the function table or package-level objects is written — hence repeatable results and no data race between concurrent evaluations",
		Run: rulePureEval})
	register(&Rule{ID: "PURE.calc", Floor: 30,
		Doc: "PURE.eval restricted to the expression calculator: an evaluation writes only memory it allocated itself, so the value of an expression cannot depend on earlier evaluations of the same instance",
		Run: func(c *Ctx) []*Obligation { return pureEvalFor(c, "PURE.calc", c.evalRoots()[:3]) }})
	register(&Rule{ID: "PURE.tmpl", Floor: 5,
		Doc: "PURE.eval restricted to the mustache template: rendering writes only memory it allocated itself (the variable map it was given included)",
		Run: func(c *Ctx) []*Obligation { return pureEvalFor(c, "PURE.tmpl", c.evalRoots()[3:]) }})
	register(&Rule{ID: "PURE.global", Floor: 2,
		Doc: "module-wide: package-level variables (variants.Empty, Keywords, operators, operatorTypes, CharValidator) are written only during package initialisation, never reassigned, never mutated through",
		Run: rulePureGlobal})
	register(&Rule{ID: "PURE.nogo", Floor: 1,
		Doc: "the module starts no goroutine and uses no channel: the only concurrency is the caller's, so race freedom reduces to 'shared memory is only read' (or written under the module's own locks / Once)",
		Run: rulePureNoGo})
}

func (c *Ctx) evalRoots() []*ssa.Function {
	return []*ssa.Function{
		c.MustFunc(pkgCalc, "ExpressionCalculator", "Evaluate"),
		c.MustFunc(pkgCalc, "ExpressionCalculator", "EvaluateUsingVariables"),
		c.MustFunc(pkgCalc, "ExpressionCalculator", "EvaluateUsingVariablesAndFunctions"),
		c.MustFunc("mustache", "MustacheTemplate", "Evaluate"),
		c.MustFunc("mustache", "MustacheTemplate", "EvaluateWithVariables"),
	}
}

func rulePureEval(c *Ctx) []*Obligation { return pureEvalFor(c, "PURE.eval", c.evalRoots()) }

func pureEvalFor(c *Ctx, rule string, roots []*ssa.Function) []*Obligation {
	o := newObl(rule)
	e := c.newEffectEngine(roots)
	shared := e.sharedWrites()
	bad := map[*ssa.Function][]writeSite{}
	for _, w := range shared {
		bad[w.fn] = append(bad[w.fn], w)
	}
	var fns []*ssa.Function
	for f := range e.region {
		fns = append(fns, f)
	}
	sort.Slice(fns, func(i, j int) bool { return c.FuncKey(fns[i]) < c.FuncKey(fns[j]) })
	for _, f := range fns {
		ws := bad[f]
		if len(ws) == 0 {
			nStores := 0
			for _, b := range f.Blocks {
				for _, in := range b.Instrs {
					switch in.(type) {
					case *ssa.Store, *ssa.MapUpdate:
						nStores++
					}
				}
			}
			key := c.FuncKey(f) + "#writes-only-fresh-memory"
			if nStores == 0 {
				o.triv(key, c.Pos(f.Pos()), "no store")
			} else {
				o.ok(key, c.Pos(f.Pos()), fmt.Sprintf("%d store(s), all into memory allocated during the evaluation", nStores))
			}
			continue
		}
		seen := map[string]bool{}
		for _, w := range ws {
			key := c.FuncKey(f) + "#" + w.key
			if seen[key] {
				continue
			}
			seen[key] = true
			o.bad(key, c.Pos(w.pos), fmt.Sprintf("during evaluation %s writes %s, which is not allocated by this evaluation (it belongs to the compiled program, an operand, the variable/function tables or the instance): a second evaluation sees the change and concurrent evaluations race on it", f.Name(), w.what))
		}
	}
	for _, x := range e.unreviewedExternals() {
		o.undecided("evaluation-region#external#"+x, "-", "external callee outside the reviewed effect table")
	}
	return o.list
}

// onceInitialisers: functions handed to (*sync.Once).Do (a named one only if Once.Do is its sole user). They run at
// most once, before any reader gets past Do, with the synchronisation Once provides: what they write is initialisation.
func (c *Ctx) onceInitialisers() map[*ssa.Function]bool {
	onceInit := map[*ssa.Function]bool{}
	for _, fn := range c.AllLibFuncs() {
		for _, ci := range allCalls(fn) {
			f := calleeObj(ci.Common())
			if f == nil || f.Pkg() == nil || f.Pkg().Path() != "sync" || f.Name() != "Do" || recvNamed(f) != "Once" {
				continue
			}
			args := callArgs(ci.Common())
			if len(args) != 1 {
				continue
			}
			switch a := args[0].(type) {
			case *ssa.MakeClosure:
				if g, ok := a.Fn.(*ssa.Function); ok {
					onceInit[g] = true
				}
			case *ssa.Function:
				onceInit[a] = true
			}
		}
	}
	// a named function counts only if Once.Do is its sole user
	for g := range onceInit {
		if g.Parent() != nil {
			continue
		}
		for _, fn := range c.AllLibFuncs() {
			for _, ci := range allCalls(fn) {
				if ci.Common().StaticCallee() == g {
					delete(onceInit, g)
				}
			}
		}
	}
	return onceInit
}

func rulePureGlobal(c *Ctx) []*Obligation {
	o := newObl("PURE.global")
	// every package-level variable of the library
	type gi struct {
		g   *ssa.Global
		rel string
	}
	var globals []gi
	for rel, sp := range c.SSA {
		for _, m := range sp.Members {
			if g, ok := m.(*ssa.Global); ok && !strings.HasPrefix(g.Name(), "init$") {
				globals = append(globals, gi{g, rel})
			}
		}
	}
	sort.Slice(globals, func(i, j int) bool { return globals[i].rel+globals[i].g.Name() < globals[j].rel+globals[j].g.Name() })
	mutators := map[string]bool{"Assign": true, "Clear": true, "SetLength": true, "SetByIndex": true}
	// functions handed to (*sync.Once).Do run at most once, before any reader gets past Do, with the
	// synchronisation Once provides: lazy initialisation is initialisation
	onceInit := c.onceInitialisers()
	for _, x := range globals {
		key := x.rel + "." + x.g.Name() + "#read-only"
		bad := ""
		for _, fn := range c.AllLibFuncs() {
			isInit := fn.Name() == "init" || strings.HasPrefix(fn.Name(), "init#") || onceInit[fn]
			for _, b := range fn.Blocks {
				for _, in := range b.Instrs {
					switch t := in.(type) {
					case *ssa.Store:
						root := rootOf(t.Addr)
						if root == ssa.Value(x.g) && !isInit {
							bad = fmt.Sprintf("%s assigns it (%s)", c.FuncKey(fn), c.Pos(t.Pos()))
						}
						if ld, ok := root.(*ssa.UnOp); ok && ld.Op == token.MUL && rootOf(ld.X) == ssa.Value(x.g) && !isInit {
							bad = fmt.Sprintf("%s writes through it (%s)", c.FuncKey(fn), c.Pos(t.Pos()))
						}
					case ssa.CallInstruction:
						if isInit {
							continue
						}
						f := calleeObj(t.Common())
						if f == nil {
							continue
						}
						recv := callRecv(t.Common())
						if recv == nil {
							continue
						}
						if ld, ok := recv.(*ssa.UnOp); ok && ld.Op == token.MUL && ld.X == ssa.Value(x.g) {
							if strings.HasPrefix(f.Name(), "SetAs") || mutators[f.Name()] {
								bad = fmt.Sprintf("%s calls the mutator %s on it (%s)", c.FuncKey(fn), f.Name(), c.Pos(t.Pos()))
							}
						}
						// append(global, …) stored back is caught as a store; appending in place into spare capacity:
						if bi, ok := t.Common().Value.(*ssa.Builtin); ok && bi.Name() == "append" {
							if ld, ok := t.Common().Args[0].(*ssa.UnOp); ok && ld.X == ssa.Value(x.g) {
								bad = fmt.Sprintf("%s appends to it (%s)", c.FuncKey(fn), c.Pos(t.Pos()))
							}
						}
					}
				}
			}
		}
		if bad != "" {
			o.bad(key, c.Pos(x.g.Pos()), "package-level variable "+x.g.Name()+" is modified after initialisation: "+bad+" — it is shared by every tokenizer/parser/calculator instance and by concurrent evaluations")
		} else {
			o.ok(key, c.Pos(x.g.Pos()), "assigned only by package initialisation")
		}
	}
	return o.list
}

func rulePureNoGo(c *Ctx) []*Obligation {
	o := newObl("PURE.nogo")
	bad := ""
	for _, fn := range c.AllLibFuncs() {
		for _, b := range fn.Blocks {
			for _, in := range b.Instrs {
				switch in.(type) {
				case *ssa.Go:
					bad = c.FuncKey(fn) + " starts a goroutine"
				case *ssa.Send, *ssa.Select, *ssa.MakeChan:
					bad = c.FuncKey(fn) + " uses a channel"
				}
			}
		}
	}
	// locks, Once and atomics do not introduce concurrency of the module's own: what they guard is still
	// judged by the write rules (PURE.global, the unchanged-instance clauses), so importing them is no finding
	o.check(bad == "", "module#no-concurrency-primitives", "-", fmt.Sprintf("%d library packages: no go statement and no channel", len(c.Lib)), bad+": the race argument (the only concurrency is the caller's; shared memory is only read) no longer covers the module")
	// unsafe, or reflection beyond the read-only comparison helpers, would invalidate the call-graph and
	// effect analyses: that is a broken assumption of the checker (undecided), not a property violation
	bad2 := ""
	for rel, p := range c.Lib {
		for path := range p.Imports {
			if path == "unsafe" {
				bad2 = rel + " imports unsafe"
			}
		}
	}
	for _, fn := range c.AllLibFuncs() {
		for _, ci := range allCalls(fn) {
			g := ci.Common().StaticCallee()
			if g == nil || g.Object() == nil || g.Object().Pkg() == nil || g.Object().Pkg().Path() != "reflect" {
				continue
			}
			if reviewedExternalFuncs["reflect."+g.Name()] == "" {
				bad2 = c.FuncKey(fn) + " calls reflect." + g.Name()
			}
		}
	}
	if bad2 == "" {
		o.ok("module#no-unsafe-reflect", "-", "no unsafe import; reflection only through the read-only reflect.DeepEqual / reflect.TypeOf (call graph and effect analysis assumptions hold)")
	} else {
		o.undecided("module#no-unsafe-reflect", "-", bad2+": the call-graph and effect analyses assume no unsafe and no reflective calls or writes")
	}
	return o.list
}
